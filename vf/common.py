"""Shared pieces of the verification harness.

* Violation           - raised by an oracle when the property under test fails
* Collector           - per-worker counters, label histogram, samples, failures
* hyp_run             - run one Hypothesis search (seeded, no database) and
                        record the shrunk failing case, if any
* to_jsonable / from_jsonable - replay-file encoding (bytes, tuples, sets)
* guard               - turn unexpected exceptions raised *inside pexpect*
                        into Violations, leave harness errors alone
"""
import hashlib
import json
import os
import sys
import time
import traceback

REPO = os.environ.get('VERIF_REPO', '/repo')
VERIF = os.path.dirname(os.path.dirname(os.path.abspath(__file__)))


class Violation(Exception):
    """The property does not hold for the current case.

    key  - stable identifier of the root-cause class (used for bucketing and
           for matching known findings)
    what - human readable description
    """

    def __init__(self, key, what):
        Exception.__init__(self, '%s: %s' % (key, what))
        self.key = key
        self.what = what


class HarnessError(Exception):
    pass


# ---------------------------------------------------------------------------
# JSON encoding of cases

def to_jsonable(x):
    if isinstance(x, bytes):
        return {'__b': x.hex()}
    if isinstance(x, str):
        try:
            x.encode('utf-8')
            return x
        except UnicodeEncodeError:
            return {'__s': [ord(c) for c in x]}
    if isinstance(x, (bool, int, float)) or x is None:
        return x
    if isinstance(x, (list, tuple)):
        return [to_jsonable(v) for v in x]
    if isinstance(x, (set, frozenset)):
        return [to_jsonable(v) for v in sorted(x, key=repr)]
    if isinstance(x, dict):
        return {'__d': [[to_jsonable(k), to_jsonable(v)] for k, v in x.items()]} \
            if any(not isinstance(k, str) for k in x) else \
            {k: to_jsonable(v) for k, v in x.items()}
    if isinstance(x, type):
        return {'__t': x.__name__}
    return {'__r': repr(x)}


def from_jsonable(x):
    if isinstance(x, dict):
        if set(x) == {'__b'}:
            return bytes.fromhex(x['__b'])
        if set(x) == {'__s'}:
            return ''.join(chr(c) for c in x['__s'])
        if set(x) == {'__d'}:
            return {_hashable(from_jsonable(k)): from_jsonable(v) for k, v in x['__d']}
        if set(x) == {'__t'}:
            return {'__t': x['__t']}
        return {k: from_jsonable(v) for k, v in x.items()}
    if isinstance(x, list):
        return [from_jsonable(v) for v in x]
    return x


def _hashable(x):
    if isinstance(x, list):
        return tuple(_hashable(v) for v in x)
    return x


def compact(x, limit=160):
    """A shortened rendering of a case for the evidence file (long payloads are abbreviated)."""
    if isinstance(x, bytes):
        if len(x) > limit:
            return {'__b_head': x[:40].hex(), 'len': len(x)}
        return {'__b': x.hex()}
    if isinstance(x, str):
        if len(x) > limit:
            return {'__s_head': x[:60], 'len': len(x)}
        return to_jsonable(x)
    if isinstance(x, (list, tuple)):
        if len(x) > 40:
            return [compact(v, limit) for v in x[:12]] + ['... %d more items' % (len(x) - 12)]
        return [compact(v, limit) for v in x]
    if isinstance(x, dict):
        return {str(k): compact(v, limit) for k, v in x.items()}
    return to_jsonable(x)


def case_hash(x):
    s = json.dumps(to_jsonable(x), sort_keys=True, separators=(',', ':'))
    return hashlib.blake2b(s.encode('utf-8'), digest_size=8).digest()


# ---------------------------------------------------------------------------

class Collector(object):
    """What one worker saw.  Merged by the runner into the evidence file."""

    MAX_SAMPLES = 4
    MAX_FAILURES = 8

    def __init__(self):
        self.evaluations = 0
        self.nontrivial = set()
        self.labels = {}
        self.samples = []
        self.failures = []      # dicts: key, what, case
        self.excluded_known = 0
        self.discarded = 0
        self.notes = []
        self.extra = {}         # free-form numeric counters summed on merge
        self.inconclusive = False

    def label(self, name, n=1):
        self.labels[name] = self.labels.get(name, 0) + n

    def count(self, name, n=1):
        self.extra[name] = self.extra.get(name, 0) + n

    def case(self, case, nontrivial, sample=None):
        """Record one executed case."""
        self.evaluations += 1
        if nontrivial:
            h = case_hash(case)
            if h not in self.nontrivial:
                self.nontrivial.add(h)
                if len(self.samples) < self.MAX_SAMPLES:
                    self.samples.append(compact(sample if sample is not None else case))

    def fail(self, key, what, case):
        for f in self.failures:
            if f['key'] == key:
                f['count'] = f.get('count', 1) + 1
                return
        if len(self.failures) < self.MAX_FAILURES:
            self.failures.append({'key': key, 'what': what, 'case': to_jsonable(case), 'count': 1})

    def export(self):
        return {
            'evaluations': self.evaluations,
            'nontrivial': list(self.nontrivial),
            'labels': self.labels,
            'samples': self.samples,
            'failures': self.failures,
            'excluded_known': self.excluded_known,
            'discarded': self.discarded,
            'notes': self.notes,
            'extra': self.extra,
            'inconclusive': self.inconclusive,
        }


# ---------------------------------------------------------------------------

def _in_pexpect(tb):
    """True if the innermost frames of the traceback are in the code under
    test (pexpect or ptyprocess), i.e. the exception was raised there."""
    frames = traceback.extract_tb(tb)
    if not frames:
        return False
    last = frames[-1].filename
    return ('/pexpect/' in last and '/verif/' not in last) or '/ptyprocess/' in last


def innermost_pexpect_frame(tb):
    frames = traceback.extract_tb(tb)
    for f in reversed(frames):
        if '/pexpect/' in f.filename and '/verif/' not in f.filename:
            return '%s:%s' % (os.path.basename(f.filename), f.name)
    for f in reversed(frames):
        if '/ptyprocess/' in f.filename:
            return 'ptyprocess/%s:%s' % (os.path.basename(f.filename), f.name)
    return None


class guard(object):
    """with guard('what was being done', allow=(EOF, TIMEOUT)): ...

    Exceptions of the allowed classes propagate unchanged.  Any other
    exception that passed through a pexpect frame becomes a Violation keyed by
    exception type and innermost pexpect frame; exceptions with no pexpect
    frame at all are harness errors and propagate unchanged."""

    def __init__(self, doing, allow=()):
        self.doing = doing
        self.allow = tuple(allow)

    def __enter__(self):
        return self

    def __exit__(self, et, ev, tb):
        if et is None:
            return False
        if issubclass(et, (Violation, HarnessError)) or not issubclass(et, Exception):
            return False
        if self.allow and issubclass(et, self.allow):
            return False
        where = innermost_pexpect_frame(tb)
        if where is None:
            return False
        frames = traceback.extract_tb(tb)
        if frames and '/verif/' in frames[-1].filename and not (
                issubclass(et, OSError) or (issubclass(et, ValueError) and frames[-1].filename.endswith('simkernel.py'))):
            # raised by harness code called back from pexpect (a proxy): a harness error - unless it is
            # an OSError, which a proxy only passes on from the real system call it wraps
            return False
        try:
            import hypothesis.errors as he
            if issubclass(et, he.HypothesisException):
                return False
        except Exception:
            pass
        raise Violation('unexpected-%s@%s' % (et.__name__, where),
                        '%s raised %s: %s' % (self.doing, et.__name__, str(ev)[:300])) from None


# ---------------------------------------------------------------------------

class case_watchdog(object):
    """A case that normally takes milliseconds but has not finished after
    `seconds` is a runaway (an infinite loop in the code under test, e.g. a
    match that is never consumed).  The margin is four orders of magnitude, so
    machine load cannot trigger it.  Main thread of a worker process only."""

    def __init__(self, seconds, what='case'):
        self.seconds = seconds
        self.what = what

    def _fire(self, signum, frame):
        raise Violation('runaway', '%s did not finish within %d s (normal: milliseconds)' % (self.what, self.seconds))

    def __enter__(self):
        import signal
        self._old = signal.signal(signal.SIGALRM, self._fire)
        signal.setitimer(signal.ITIMER_REAL, self.seconds)
        return self

    def __exit__(self, *a):
        import signal
        signal.setitimer(signal.ITIMER_REAL, 0)
        signal.signal(signal.SIGALRM, self._old)
        return False


def hyp_settings(max_examples, shrink=True, stateful_step_count=None):
    from hypothesis import settings, HealthCheck, Phase
    phases = [Phase.explicit, Phase.generate]
    if shrink:
        phases.append(Phase.shrink)
    kw = dict(max_examples=max_examples, deadline=None, database=None,
              derandomize=False, report_multiple_bugs=False,
              suppress_health_check=list(HealthCheck), phases=phases,
              print_blob=False)
    if stateful_step_count is not None:
        kw['stateful_step_count'] = stateful_step_count
    return settings(**kw)


def hyp_run(body, strategy, n, seed, col, shrink=True, deadline_ts=None):
    """Run `body(case, col)` on `n` cases drawn from `strategy`.

    body raises Violation for a property failure.  On failure Hypothesis
    shrinks; the last failing execution (= the minimal example) is recorded in
    col.failures.  Returns True if no failure was found."""
    from hypothesis import given, seed as hseed
    import hypothesis.errors as he

    state = {'last': None}

    def test(case):
        if deadline_ts is not None and time.time() > deadline_ts:
            col.inconclusive = True
            return
        if state.get('runaway'):
            # do not pay the watchdog delay again and again while shrinking
            raise Violation(*state['runaway'][:2])
        try:
            body(case, col)
        except Violation as v:
            state['last'] = (v.key, v.what, case)
            if v.key == 'runaway':
                state['runaway'] = state['last']
            raise

    test = given(strategy)(test)
    test = hseed(seed)(test)
    test = hyp_settings(n, shrink=shrink)(test)
    try:
        test()
    except Violation:
        key, what, case = state['last']
        col.fail(key, what, case)
        return False
    except he.Flaky as e:      # includes FlakyFailure
        if state['last'] is not None:
            key, what, case = state['last']
            col.fail(key, what + ' [flaky under replay]', case)
            return False
        raise
    return True


def run_batches(body, strategy, total, seed, col, batch=None, shrink=True,
                deadline_ts=None, stop_on_fail=True):
    """Run `total` cases as several Hypothesis runs with distinct seeds (keeps
    per-run memory bounded and lets a wall-clock budget stop between runs)."""
    if batch is None:
        batch = min(total, 2000)
    done = 0
    k = 0
    while done < total:
        if deadline_ts is not None and time.time() > deadline_ts:
            col.inconclusive = True
            break
        n = min(batch, total - done)
        ok = hyp_run(body, strategy, n, seed * 7919 + k, col, shrink=shrink,
                     deadline_ts=deadline_ts)
        done += n
        k += 1
        if not ok and stop_on_fail:
            break
    return done


def assert_repo_tree():
    """Make sure the code under test is /repo's working tree."""
    import pexpect
    p = os.path.realpath(pexpect.__file__)
    want = os.path.realpath(os.path.join(REPO, 'pexpect'))
    if not p.startswith(want + os.sep):
        raise HarnessError('pexpect imported from %s, expected %s' % (p, want))
