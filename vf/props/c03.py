"""C03 No missed or late match: every chunking agrees with naive full re-search.

Oracle (differential against the naive procedure of vf/engines/refmodel.py:
"after each read, search all pending text, or its last W characters").  For
every expect-family call the outcome kind, the index, before, after, the
pending text left behind and - for matches - the number of reads consumed
must equal the model's.  Late = more reads than the model; skipped = another
occurrence, or TIMEOUT/EOF where the model matches.  Text outside the window
still appears in before (equality of before gives that).
"""
from hypothesis import strategies as st

from ..common import Violation, Collector, run_batches, case_watchdog
from ..engines import e1

PROPERTY = 'C03'
RULE = ('Hypothesis-generated histories of expect/expect_exact/expect_list calls with a window W drawn per call '
        'from {instance default, None, 1..5, 20}, pattern lists changing between calls, TIMEOUT markers between '
        'and inside calls, streams cut at arbitrary offsets (chunks larger and smaller than W, empty reads, '
        'maxread 1..7/2000), bytes|utf-8; the real Expecter over a scripted transport vs the naive reference '
        'model.  Non-trivial: a matching call that needed >=2 reads whose occurrence straddles a read boundary, '
        'or a call that follows a TIMEOUT which left a trimmed search buffer (len(buffer) < len(before)), or a '
        'window that grew/was removed relative to the previous call.  Distinct by hash of the case.')
ASSUMPTIONS = [
    'the reference model is the specification: leftmost match in the sliced last-W characters, lowest index on ties',
    'scripted transport with a virtual clock (timeout 0 = exactly one poll)',
    'streams up to 18 symbols, histories up to 6 calls (thorough: 30 symbols, 8 calls)',
]
BUDGET = {'quick': 200, 'thorough': 1500}


def shards(tier):
    n = 2500 if tier == 'quick' else 150000
    return [{'n': n, 'big': tier == 'thorough' and i % 2 == 1} for i in range(16)]


def check_case(case, col=None):
    feats = set()
    nt = False
    trimmed_before_call = False
    prev_w = 'unset'
    for st_, sp, mo in e1.execute(case):
        c = st_.call
        if c['op'] == 'setbuf':
            trimmed_before_call = False
            continue
        m = st_.model
        if m is None:
            continue
        real_kind = 'match'
        if st_.exc == 'EOF' or st_.after is e1.EOF:
            real_kind = 'eof'
        elif st_.exc == 'TIMEOUT' or st_.after is e1.TIMEOUT:
            real_kind = 'timeout'
        where = 'call %d (%s, W=%r, timeout=%r)' % (st_.i, c['op'], st_.W, c.get('timeout'))
        if real_kind != m.kind:
            if m.kind == 'match':
                raise Violation('missed-match', '%s ended in %s; naive search of %r finds pattern %d at %r'
                                % (where, real_kind, m.searched, m.index, m.span))
            raise Violation('spurious-outcome', '%s ended in %s, the naive procedure in %s (pending %r)'
                            % (where, real_kind, m.kind, m.before))
        if m.kind == 'match':
            is_reader = c['op'] in ('read', 'readline')
            if (not is_reader and st_.ret != m.index) or st_.match_index != m.index or st_.before != m.before or st_.after != m.after:
                raise Violation('different-occurrence',
                                '%s reported index %r before=%r after=%r; naive: index %r before=%r after=%r'
                                % (where, st_.ret, st_.before, st_.after, m.index, m.before, m.after))
            if st_.reads > m.reads:
                raise Violation('late-match', '%s needed %d reads, the occurrence was complete after %d'
                                % (where, st_.reads, m.reads))
            if st_.reads < m.reads:
                raise Violation('early-match', '%s matched after %d reads, naive after %d' % (where, st_.reads, m.reads))
            if st_.buffer != m.pending:
                raise Violation('pending-differs', '%s left buffer=%r, naive pending=%r' % (where, st_.buffer, m.pending))
        else:
            if st_.before != m.before:
                raise Violation('before-differs', '%s (%s): before=%r, naive pending=%r' % (where, m.kind, st_.before, m.before))
        # non-triviality features
        if m.kind == 'match' and m.reads >= 2:
            s = len(m.before)
            e = s + len(m.after)
            tot = len(st_.pending_before)
            for d in st_.delivered[:-1]:
                tot += len(d)
                if s < tot < e:
                    feats.add('occurrence-straddles-boundary')
                    nt = True
        if trimmed_before_call:
            feats.add('call-after-trimmed-timeout')
            nt = True
        if prev_w != 'unset' and ((st_.W is None and prev_w is not None) or
                                  (st_.W is not None and prev_w is not None and st_.W > prev_w)):
            feats.add('window-grew-or-removed')
            nt = True
        prev_w = st_.W
        trimmed_before_call = (real_kind == 'timeout' and len(st_.buffer) < len(st_.before))
        if c['op'] in ('read', 'readline', 'readlines', 'iter'):
            prev_w = case['sws']
    if col is not None:
        for f in feats:
            col.label(f)
        col.case(case, nt)


OPS = ['expect', 'expect', 'expect_exact', 'expect_exact', 'expect_exact', 'expect_list', 'expect_c', 'readline', 'read',
       'set_sws', 'set_maxread']


def body(case, col):
    with case_watchdog(30, 'C03 history'):
        check_case(case, col)


def run_shard(spec, seed, idx, deadline_ts):
    col = Collector()
    big = spec.get('big')
    strat = e1.cases(ops=OPS, max_calls=8 if big else 6, max_syms=30 if big else 18)
    run_batches(body, strat, spec['n'], seed * 1000 + idx, col, deadline_ts=deadline_ts)
    return col


def replay(case, spec=None):
    check_case(case)


def _probe_constructor_window():
    """the search window given to the constructor is the instance default on every transport: text that lies
    further back than the last W characters of one read is not searched"""
    import os
    import socket
    import tempfile
    from pexpect import fdpexpect, popen_spawn, socket_pexpect
    from pexpect.exceptions import EOF
    for W in (3, 6, None):
        data = b'MARK' + b'y' * 18
        want = 0 if W is None else 1
        # raw descriptor
        r, w = os.pipe()
        os.write(w, data)
        os.close(w)
        sp = fdpexpect.fdspawn(r, searchwindowsize=W, timeout=5)
        try:
            got = [sp.expect_exact([b'MARK', EOF])]
        finally:
            os.close(r)
        # piped subprocess
        fd, path = tempfile.mkstemp(prefix='c03_')
        os.write(fd, data)
        os.close(fd)
        ps = popen_spawn.PopenSpawn(['/bin/cat', path], searchwindowsize=W, timeout=5)
        try:
            import time
            time.sleep(0.1)
            got.append(ps.expect([b'MARK', EOF]))
        finally:
            ps.proc.wait()
            ps.proc.stdout.close()
            ps.proc.stdin.close()
            os.unlink(path)
        # socket
        a, b = socket.socketpair()
        b.sendall(data)
        b.close()
        ss = socket_pexpect.SocketSpawn(a, searchwindowsize=W, timeout=5)
        try:
            got.append(ss.expect_exact([b'MARK', EOF]))
        finally:
            a.close()
        for name, g in zip(('fdspawn', 'PopenSpawn', 'SocketSpawn'), got):
            if g != want:
                raise Violation('constructor-window:' + name, '%s(searchwindowsize=%r) on one read of %r: expect([MARK, EOF]) returned %r, '
                                'the naive search of the last W characters gives %r' % (name, W, data, g, want))


PROBES = [('probe:constructor-window', 'the search window passed to the constructor of each transport is in force', _probe_constructor_window)]
