"""C02 A reported match is genuine, leftmost, and lowest-index on ties.

Oracle (validity + optimality; no comparison with the implementation or the
model).  On return of index i for a text pattern, with P = before+after+buffer
the pending text and T = its last W characters (all of it without a window):
  * entry i is a text pattern, match_index == i;
  * regex: L[i].match(T, pos) exists at pos = where before ends, its group(0)
    is `after`, its groups equal spawn.match.groups(), spawn.match.group(0) is
    `after` and spawn.match's own string/span describe that occurrence;
    exact: after == L[i] == spawn.match;
  * brute force over all listed text patterns: none has an occurrence starting
    before pos in T, and none with a lower index has one starting at pos.
"""
import re

from hypothesis import strategies as st

from ..common import Violation, Collector, run_batches, case_watchdog
from ..engines import e1

PROPERTY = 'C02'
RULE = ('Hypothesis-generated pattern lists (1-5 entries: regex grammar or exact strings, duplicates, prefixes '
        'of each other, EOF/TIMEOUT interleaved so indices shift) x streams x read splittings x window, run on '
        'the real Expecter over a scripted transport.  Non-trivial: a returned text match for which at least two '
        'listed text patterns occur in the searched text and either two of them start at the winning position, '
        'or an earlier-listed pattern occurs later than the winner, or a marker precedes the winner in the list. '
        'Distinct by hash of the case.')
ASSUMPTIONS = [
    'the searched text is taken to be the last W characters of before+after+buffer (the whole of it without a '
    'window), which is what the property statement names; C03 checks that this is what was really searched',
    'scripted transport; streams up to 16 symbols, lists up to 5 patterns',
]
BUDGET = {'quick': 200, 'thorough': 1500}


def shards(tier):
    n = 2500 if tier == 'quick' else 120000
    return [{'n': n} for _ in range(16)]


def occurrences(entries, T):
    """earliest start of every text entry in T (or None)"""
    out = {}
    for j, e in enumerate(entries):
        if isinstance(e, str):
            continue
        kind, p = e
        if kind == 're':
            m = p.search(T)
            out[j] = None if m is None else m.start()
        else:
            s = T.find(p)
            out[j] = None if s < 0 else s
    return out


def check_step(st_, feats):
    c = st_.call
    if c['op'] not in ('expect', 'expect_list', 'expect_c', 'expect_exact'):
        return False
    if st_.exc is not None or st_.after is e1.EOF or st_.after is e1.TIMEOUT:
        return False
    i = st_.ret
    entries = st_.entries
    if not isinstance(i, int) or not (0 <= i < len(entries)) or isinstance(entries[i], str):
        raise Violation('index-not-a-text-pattern', 'returned %r for entries %r' % (i, c['pats']))
    if st_.match_index != i:
        raise Violation('match-index', 'returned %r but match_index is %r' % (i, st_.match_index))
    P = st_.before + st_.after + st_.buffer
    W = st_.W
    T = P[-W:] if W else P
    off = len(P) - len(T)
    pos = len(st_.before) - off
    if pos < 0:
        raise Violation('match-outside-window', 'before ends %d characters left of the search window' % -pos)
    kind, pat = entries[i]
    if kind == 're':
        m = pat.match(T, pos)
        if m is None or m.group(0) != st_.after:
            # a lazy/greedy regex may match a different length when anchored by match(); search from pos instead
            m2 = pat.search(T, pos)
            if m2 is None or m2.start() != pos or m2.group(0) != st_.after:
                raise Violation('not-genuine', 'pattern %r does not match %r at offset %d of %r'
                                % (pat.pattern, st_.after, pos, T))
            m = m2
        sm = st_.match
        if not hasattr(sm, 'group'):
            raise Violation('match-attr', 'match is %r for a regex hit' % (sm,))
        if sm.group(0) != st_.after or sm.groups() != m.groups():
            raise Violation('match-attr', 'match describes %r groups %r; the occurrence is %r groups %r'
                            % (sm.group(0), sm.groups(), st_.after, m.groups()))
        if sm.string[sm.start():sm.end()] != st_.after or not st_.before.endswith(sm.string[:sm.start()]):
            raise Violation('match-attr', 'match span %r of %r is not the reported occurrence' % (sm.span(), sm.string))
        if sm.start() != pos and len(sm.string) == len(T):
            raise Violation('match-attr', 'match.start() is %d, before ends at %d of the searched text' % (sm.start(), pos))
        if sm.re.pattern != pat.pattern:
            raise Violation('match-attr', 'match.re is %r, pattern %d is %r' % (sm.re.pattern, i, pat.pattern))
    else:
        if st_.after != pat or st_.match != pat:
            raise Violation('not-genuine', 'exact pattern %r: after=%r match=%r' % (pat, st_.after, st_.match))
        if T[pos:pos + len(pat)] != pat:
            raise Violation('not-genuine', 'exact pattern %r is not at offset %d of %r' % (pat, pos, T))
    occ = occurrences(entries, T)
    for j, s in occ.items():
        if s is None:
            continue
        if s < pos:
            raise Violation('not-leftmost', 'pattern %d starts at %d in %r, before the reported match of pattern %d at %d'
                            % (j, s, T, i, pos))
        if s == pos and j < i:
            raise Violation('not-lowest-index', 'patterns %d and %d both match at %d in %r; %d was reported'
                            % (j, i, pos, T, i))
    present = [j for j, s in occ.items() if s is not None]
    nt = False
    if len(present) >= 2:
        if sum(1 for j in present if occ[j] == pos) >= 2:
            feats.add('tie-at-winning-position')
            nt = True
        if any(j < i and occ[j] > pos for j in present):
            feats.add('earlier-listed-matches-later')
            nt = True
        if any(isinstance(e, str) for e in entries[:i]):
            feats.add('marker-before-winner')
            nt = True
    return nt


def check_case(case, col=None):
    feats = set()
    nt = False
    for st_, sp, mo in e1.execute(case):
        nt = check_step(st_, feats) or nt
    if col is not None:
        for f in feats:
            col.label(f)
        col.case(case, nt)


@st.composite
def dense_call(draw, text_mode, stream=None):
    exact = draw(st.booleans())
    pats = draw(e1.pattern_list(text_mode, exact, min_text=2, max_len=5, stream=stream))
    return {'op': 'expect_exact' if exact else draw(st.sampled_from(['expect', 'expect_list', 'expect_c'])),
            'pats': pats, 'w': draw(e1.windows()), 'timeout': draw(e1.timeouts()), 'single': False}


def body(case, col):
    with case_watchdog(30, 'C02 history'):
        check_case(case, col)


def run_shard(spec, seed, idx, deadline_ts):
    col = Collector()
    strat = e1.cases(call_strategy=dense_call, max_calls=4, max_syms=16)
    run_batches(body, strat, spec['n'], seed * 1000 + idx, col, deadline_ts=deadline_ts)
    return col


def replay(case, spec=None):
    check_case(case)


PROBES = []
