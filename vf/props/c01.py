"""C01 Stream conservation: nothing the child wrote is lost, duplicated or reordered.

Oracle (history invariant, both directions).  R = concatenation of the text
the transport handed over (re-based to H+v at `buffer = v`); H = concatenation,
in call order, of before+after of every successful text match (plus the before
delivered at EOF).  After every API call:   H + pending == R
with pending = buffer after a match, before after a TIMEOUT, '' after EOF.
A TIMEOUT call must leave pending == pending_before + what was read during it.
Return values of read/readline/readlines/iteration must be the before/after
combination their docstrings describe.  Types follow the mode.
"""
import os
import tempfile

from hypothesis import strategies as st

from ..common import Violation, Collector, run_batches, guard, case_watchdog
from ..engines import e1, scripted

PROPERTY = 'C01'
RULE = ('Hypothesis-generated (stream, split into reads, TIMEOUT markers, call history over expect/'
        'expect_exact/expect_list/read/readline/readlines/iteration/buffer assignment, window per call, '
        'bytes|utf-8 mode) executed on the real Expecter over a scripted transport; 10% also replayed on a '
        'real fdspawn over a pipe with maxread=k.  Non-trivial: >=2 calls and one of {a read boundary '
        'strictly inside a matched occurrence, a TIMEOUT between two matches, window differs between '
        'consecutive calls, zero-width or end-of-text match with text pending, buffer assignment followed '
        'by a match}; plus a fault tier: the k-th read of an expect/expect_exact/expect_list/readline/read(n) call raises an injected '
        'exception (OSError, RuntimeError, an application exception; one or two faults), the rest is drained by read()/expect(EOF)/readlines() '
        'and everything handed back must be the stream, once (non-trivial there: a fault after text had arrived).  Distinct by hash of the whole case.')
ASSUMPTIONS = [
    'read boundaries are those of the scripted transport (every chunk goes through the real incremental '
    'decoder and _log); the real-descriptor replay covers fdspawn on a pre-filled pipe only',
    'timeouts are virtual: a TIMEOUT marker in the script stands for "nothing more arrives before the deadline"',
    'streams up to 14 symbols over a 9-12 symbol alphabet, histories up to 6 calls (thorough: 24 symbols, 8 calls)',
]
BUDGET = {'quick': 200, 'thorough': 1500}


def shards(tier):
    n = 2500 if tier == 'quick' else 120000
    return ([{'kind': 'hist', 'n': n, 'big': tier == 'thorough' and i % 2 == 1} for i in range(16)] +
            [{'kind': 'fault', 'n': 1500 if tier == 'quick' else 40000} for _ in range(2)])


def check_case(case, col=None):
    text_mode = case['enc'] is not None
    T = str if text_mode else bytes
    empty = T()
    H = empty
    R = empty
    pending = empty
    bounds = set()           # offsets in R where a read boundary fell
    feats = set()
    last_kind = None
    prev_w = 'unset'
    since_setbuf = False
    timeout_since_match = False
    ncalls = 0
    for st_, sp, mo in e1.execute(case):
        ncalls += 1
        c = st_.call
        op = c['op']
        for d in st_.delivered:
            if not isinstance(d, T):
                raise Violation('type', 'transport delivered %r in %s mode' % (type(d), T.__name__))
            R += d
            bounds.add(len(R))
        if op == 'setbuf':
            v = e1.conv(c['v'], text_mode)
            R = H + v
            pending = v
            bounds = set()
            since_setbuf = True
            if sp.buffer != v:
                raise Violation('setbuf-readback', 'buffer reads back %r after assigning %r' % (sp.buffer, v))
            continue
        pend0 = pending
        kind = None
        for kind, before, after in st_.trace:
            if not isinstance(before, T):
                raise Violation('type', 'before is %r in %s mode' % (type(before), T.__name__))
            if kind == 'match':
                if not isinstance(after, T):
                    raise Violation('type', 'after is %r in %s mode' % (type(after), T.__name__))
                s, e = len(H) + len(before), len(H) + len(before) + len(after)
                if any(s < b < e for b in bounds):
                    feats.add('boundary-in-match')
                if len(after) == 0 or e == len(R):
                    if len(R) > len(H):
                        feats.add('zero-width-or-end-match')
                if since_setbuf:
                    feats.add('setbuf-then-match')
                if timeout_since_match:
                    feats.add('timeout-between-matches')
                timeout_since_match = False
                H += before + after
            elif kind == 'eof':
                H += before
            else:
                timeout_since_match = True
        if not st_.trace:
            # read(0), or a call rejected before doing anything
            if H + pending != R:
                raise Violation('conservation', 'after %s: handed back %r + pending %r != received %r'
                                % (op, H, pending, R))
            continue
        if kind == 'match':
            pending = st_.buffer
        elif kind == 'timeout':
            pending = st_.before
            if st_.before != pend0 + empty.join(st_.delivered) and len(st_.trace) == 1:
                raise Violation('timeout-consumed',
                                'call %d (%s) ended in TIMEOUT with before=%r but pending was %r and %r arrived'
                                % (st_.i, op, st_.before, pend0, st_.delivered))
        else:
            pending = empty
            if st_.buffer != empty:
                raise Violation('eof-not-cleared', 'buffer is %r after EOF' % (st_.buffer,))
        if not isinstance(st_.buffer, T):
            raise Violation('type', 'buffer is %r in %s mode' % (type(st_.buffer), T.__name__))
        if H + pending != R:
            raise Violation('conservation',
                            'after call %d (%s, outcome %s): handed back %r + pending %r != received %r'
                            % (st_.i, op, kind, H, pending, R))
        # return values of the file-like readers are the documented before/after combination
        if op in ('read', 'readline', 'readlines', 'iter') and st_.exc is None:
            if st_.ret != st_.expected_ret:
                raise Violation('reader-return', '%s returned %r, the documented composition is %r'
                                % (op, st_.ret, st_.expected_ret))
        w = st_.W
        if prev_w != 'unset' and w != prev_w:
            feats.add('window-changed')
        prev_w = w
    nontrivial = ncalls >= 2 and bool(feats)
    if col is not None:
        for f in feats:
            col.label(f)
        col.label('mode=' + ('text' if text_mode else 'bytes'))
        col.case(case, nontrivial)
    return nontrivial


def replay_on_fd(case):
    """Second transport: the same history on a real fdspawn reading a
    pre-filled, writer-closed pipe with maxread=k.  Only histories whose
    script has no TIMEOUT markers make sense here."""
    from pexpect import fdpexpect
    from pexpect.exceptions import EOF, TIMEOUT
    text_mode = case['enc'] is not None
    T = str if text_mode else bytes
    r, w = os.pipe()
    try:
        os.write(w, case['stream'])
        os.close(w)
        kw = dict(maxread=case['maxread'], searchwindowsize=case['sws'], timeout=5)
        if text_mode:
            kw['encoding'] = case['enc']
        log = []

        class Rec(object):
            def write(self, s):
                log.append(s)

            def flush(self):
                pass
        sp = fdpexpect.fdspawn(r, **kw)
        sp.logfile_read = Rec()
        H = T()
        for c in case['calls']:
            op = c['op']
            if op not in ('expect', 'expect_exact', 'expect_c'):
                continue
            nat = e1.native_patterns(c['pats'], text_mode, op == 'expect_exact', compiled=(op == 'expect_c'))
            try:
                with guard('fd replay ' + op, allow=(EOF, TIMEOUT)):
                    if op == 'expect_exact':
                        sp.expect_exact(nat, searchwindowsize=c['w'])
                    else:
                        sp.expect(nat, searchwindowsize=c['w'])
            except EOF:
                H += sp.before
                pending = T()
            except TIMEOUT:
                raise Violation('fd-timeout', 'TIMEOUT on a closed pre-filled pipe')
            else:
                if sp.after is EOF:
                    H += sp.before
                    pending = T()
                elif sp.after is TIMEOUT:
                    # TIMEOUT listed and poll... cannot happen with timeout 5 on a closed pipe
                    raise Violation('fd-timeout', 'TIMEOUT index on a closed pre-filled pipe')
                else:
                    H += sp.before + sp.after
                    pending = sp.buffer
            R = T().join(log)
            if H + pending != R:
                raise Violation('conservation', 'fdspawn: handed back %r + pending %r != received %r' % (H, pending, R))
    finally:
        try:
            os.close(r)
        except OSError:
            pass


def replay_on_popen(case):
    """Third transport: the expect-family calls of the history on a real PopenSpawn (`cat file`), each with its
    own timeout (0 = poll).  Whatever the timing: what was handed back plus what is pending is what was logged as
    read, and once EOF has been reached everything handed back is the file - nothing taken from the reader
    thread's queue may vanish."""
    import tempfile
    import time
    from pexpect.popen_spawn import PopenSpawn
    from pexpect.exceptions import EOF, TIMEOUT
    text_mode = case['enc'] is not None
    T = str if text_mode else bytes
    fd, path = tempfile.mkstemp(prefix='c01_')
    sp = None
    try:
        os.write(fd, case['stream'])
        os.close(fd)
        kw = dict(maxread=case['maxread'], searchwindowsize=case['sws'], timeout=5)
        if text_mode:
            kw['encoding'] = case['enc']
        log = []

        class Rec(object):
            def write(self, s):
                log.append(s)

            def flush(self):
                pass
        sp = PopenSpawn(['/bin/cat', path], **kw)
        sp.logfile_read = Rec()
        if len(case['stream']) % 2:
            time.sleep(0.03)          # the whole output is already queued when the first call polls
        H = T()
        done = False
        calls = [c for c in case['calls'] if c['op'] in ('expect', 'expect_exact', 'expect_c')]
        for c in calls + [None]:
            if c is None:
                if done:
                    break
                op, nat, w, to = 'expect', [EOF], -1, 5
            else:
                op = c['op']
                nat = e1.native_patterns(c['pats'], text_mode, op == 'expect_exact', compiled=(op == 'expect_c'))
                w, to = c['w'], (5 if c['timeout'] == -1 else c['timeout'])
            outcome = 'match'
            try:
                with guard('popen replay ' + op, allow=(EOF, TIMEOUT)):
                    if op == 'expect_exact':
                        sp.expect_exact(nat, searchwindowsize=w, timeout=to)
                    else:
                        sp.expect(nat, searchwindowsize=w, timeout=to)
            except EOF:
                outcome = 'eof'
            except TIMEOUT:
                outcome = 'timeout'
            else:
                if sp.after is EOF:
                    outcome = 'eof'
                elif sp.after is TIMEOUT:
                    outcome = 'timeout'
            if outcome == 'eof':
                H += sp.before
                pending = T()
                done = True
            elif outcome == 'timeout':
                pending = sp.before
            else:
                H += sp.before + sp.after
                pending = sp.buffer
            R = T().join(log)
            if H + pending != R:
                raise Violation('conservation', 'PopenSpawn, %s(timeout=%r) ended in %s: handed back %r + pending %r != logged as read %r'
                                % (op, to, outcome, H, pending, R))
            if done:
                break
        whole = case['stream'].decode(case['enc']) if text_mode else case['stream']
        if H != whole:
            raise Violation('conservation', 'PopenSpawn (`cat` of %r): everything handed back up to EOF is %r' % (whole, H))
    finally:
        if sp is not None:
            try:
                sp.proc.kill()
            except Exception:
                pass
            try:
                sp.proc.wait()
                sp.proc.stdout.close()
                sp.proc.stdin.close()
            except Exception:
                pass
        try:
            os.unlink(path)
        except OSError:
            pass


# ---------------------------------------------------------------------------
# fault tier: an expect-family call is interrupted by an exception that is neither EOF nor TIMEOUT (a signal handler
# raising, Ctrl-C, an OSError of the read) after part of the stream has arrived; the calls that follow must still
# hand back the whole stream, once

class HandlerRaised(Exception):
    """what a signal handler of the application raises in the middle of a read"""


FAULTS = {'OSError': lambda: OSError(4, 'injected fault'), 'HandlerRaised': lambda: HandlerRaised('injected fault'),
          'RuntimeError': lambda: RuntimeError('injected fault')}


class FaultSpawn(scripted.ScriptedSpawn):
    """script item ('x', name): this read raises the injected exception instead of returning anything"""

    def read_nonblocking(self, size=1, timeout=-1):
        if self.script and self.script[0][0] == 'x':
            item = self.script.pop(0)
            self.reads += 1
            raise FAULTS[item[1]]()
        return scripted.ScriptedSpawn.read_nonblocking(self, size, timeout)


FAULT_SYMS = ['a', 'b', ' ', '\n', '\r\n', 'é', '€', '語', '\U0001f600']


@st.composite
def fault_cases(draw):
    text_mode = draw(st.booleans())
    s = ''.join(draw(st.lists(st.sampled_from(FAULT_SYMS), min_size=1, max_size=10)))
    data = s.encode('utf-8')
    n = len(data)
    cuts = sorted(draw(st.lists(st.integers(0, n), min_size=1, max_size=5)))
    nf = draw(st.sampled_from([1, 1, 2]))
    return {'kind': 'fault', 'enc': 'utf-8' if text_mode else None, 'stream': data, 'cuts': cuts,
            'faults': sorted(draw(st.lists(st.integers(0, len(cuts)), min_size=nf, max_size=nf, unique=True))),
            'exc': draw(st.sampled_from(sorted(FAULTS))),
            'op': draw(st.sampled_from(['expect', 'expect_exact', 'expect_list', 'readline', 'read_n'])),
            'w': draw(st.sampled_from([-1, None, 2])),
            'maxread': draw(st.sampled_from([2000, 2000, 1, 3])),
            'drain': draw(st.sampled_from(['read', 'expect_eof', 'readlines']))}


def check_fault_case(case, col=None):
    import re
    from pexpect.exceptions import EOF, TIMEOUT
    text_mode = case['enc'] is not None
    T = str if text_mode else bytes
    script = scripted.build_script(case['stream'], case['cuts'], {})
    # the k-th chunk is followed by a read that raises
    out = []
    for i, it in enumerate(script):
        out.append(it)
        if i in case['faults']:
            out.append(('x', case['exc']))
    kw = dict(maxread=case['maxread'], timeout=30)
    if text_mode:
        kw['encoding'] = 'utf-8'
    sp = FaultSpawn(out, tail='eof', **kw)
    never = '\x00never' if text_mode else b'\x00never'
    want = case['stream'].decode('utf-8') if text_mode else case['stream']
    got = T()
    interrupted = 0
    arrived_before_fault = False
    inside_char = False
    for attempt in range(200):
        if not any(it[0] == 'x' for it in sp.script):
            break                   # every fault has happened: the drain takes the rest
        try:
            op = case['op']
            if op == 'expect':
                sp.expect([re.escape(never)], searchwindowsize=case['w'])
            elif op == 'expect_exact':
                sp.expect_exact([never], searchwindowsize=case['w'])
            elif op == 'expect_list':
                sp.expect_list([re.compile(re.escape(never))], searchwindowsize=case['w'])
            elif op == 'readline':
                got += sp.readline()
                continue
            else:
                got += sp.read(3)
                continue
            raise Violation('fault:impossible-match', 'a pattern that is not in the stream matched: before=%r after=%r' % (sp.before, sp.after))
        except EOF:
            got += sp.before
            break
        except TIMEOUT as e:
            raise Violation('fault:unexpected-TIMEOUT', 'TIMEOUT on a scripted stream that ends in EOF: %s' % str(e)[:80])
        except (OSError, HandlerRaised, RuntimeError) as e:
            if 'injected' not in str(e):
                raise
            interrupted += 1
            if any(sp.delivered):
                arrived_before_fault = True
                nbytes = len(''.join(sp.delivered).encode('utf-8')) if text_mode else 0
                if text_mode and sum(len(d) for d in sp.delivered) and nbytes < len(case['stream']):
                    consumed = sum(len(it[1]) for it in script[:len(sp.delivered)])
                    inside_char = inside_char or consumed != nbytes
    where = 'after %d interrupted %s call(s) (%s raised by the read following chunk(s) %r of %r)' % (
        interrupted, case['op'], case['exc'], case['faults'], [it[1] for it in script])
    try:
        if not sp._sticky_eof or sp.buffer or True:
            if case['drain'] == 'read':
                got += sp.read()
            elif case['drain'] == 'expect_eof':
                sp.expect(EOF)
                got += sp.before
            else:
                got += T().join(sp.readlines())
    except (EOF, TIMEOUT, UnicodeError) as e:
        raise Violation('fault:drain-' + type(e).__name__, '%s: draining the rest of the stream raised %s: %s'
                        % (where, type(e).__name__, str(e)[:100]))
    if got != want:
        raise Violation('fault:conservation', '%s: the calls handed back %r, the child wrote %r' % (where, got, want))
    if col is not None:
        if inside_char:
            col.label('fault-inside-a-character')
        if interrupted >= 2:
            col.label('two-faults')
        col.case(case, interrupted >= 1 and arrived_before_fault)


def fault_body(case, col):
    with case_watchdog(30, 'C01 fault history'):
        check_fault_case(case, col)


def body(case, col):
    with case_watchdog(30, 'C01 history'):
        check_case(case, col)
    if not case['marks'] and case['tail'] == 'eof' and (len(case['stream']) % 10 == 3):
        col.count('fd_replays')
        replay_on_fd(case)
    if not case['marks'] and case['tail'] == 'eof' and (len(case['stream']) % 10 in (5, 7)):
        col.count('popen_replays')
        with case_watchdog(60, 'C01 popen replay'):
            replay_on_popen(case)


def run_shard(spec, seed, idx, deadline_ts):
    col = Collector()
    if spec.get('kind') == 'fault':
        run_batches(fault_body, fault_cases(), spec['n'], seed * 1000 + idx, col, deadline_ts=deadline_ts)
        return col
    big = spec.get('big')
    strat = e1.cases(max_calls=8 if big else 6, max_syms=24 if big else 14)
    run_batches(body, strat, spec['n'], seed * 1000 + idx, col, deadline_ts=deadline_ts)
    return col


def replay(case, spec=None):
    if case.get('kind') == 'fault':
        return check_fault_case(case)
    check_case(case)
    if not case['marks'] and case['tail'] == 'eof':
        replay_on_fd(case)
        replay_on_popen(case)


# ---------------------------------------------------------------------------
# deterministic probes: regression checks for findings made by this check

def _probe_zero_width():
    case = {'enc': None, 'stream': b'ab', 'cuts': [], 'marks': {'0': 't'}, 'tail': 'eof', 'maxread': 2000,
            'sws': None,
            'calls': [{'op': 'expect', 'pats': [{'re': 'x'}], 'w': -1, 'timeout': -1, 'single': False},
                      {'op': 'expect', 'pats': [{'re': '$'}], 'w': -1, 'timeout': -1, 'single': False}]}
    check_case(case)


def _probe_setbuf():
    case = {'enc': None, 'stream': b'aab', 'cuts': [], 'marks': {'0': 't'}, 'tail': 'eof', 'maxread': 2000,
            'sws': None,
            'calls': [{'op': 'expect', 'pats': [{'re': 'x'}], 'w': -1, 'timeout': -1, 'single': False},
                      {'op': 'setbuf', 'v': 'b'},
                      {'op': 'expect', 'pats': [{'re': 'b'}], 'w': -1, 'timeout': -1, 'single': False}]}
    check_case(case)


PROBES = [
    ('probe:zero-width-end-match', 'zero-width match at the end of the searched text loses the pending text', _probe_zero_width),
    ('probe:setbuf-ignored', 'assignment to buffer is ignored by the next call', _probe_setbuf),
]
