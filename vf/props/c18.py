"""C18 ANSI emulator: total, shape-preserving and independent of how input is chunked.

Generated token sequences (printables, CR/LF/BS/NUL, every escape sequence the
emulator knows with parameters from {0, 1, in-range, == size, size+1, huge},
unknown finals, truncated prefixes) are fed to pexpect.ANSI.ANSI as str or as
bytes in latin-1 / utf-8 / cp437.  Oracles:
 (1) write never raises;
 (2) the grid is exactly rows x cols cells, each a str of length 1;
 (3) 1 <= cur_r <= rows, 1 <= cur_c <= cols;
 (4) the input is re-segmented by an independent regular expression of
     "completed sequence"; after each completed segment the parser is in INIT
     and its memory is [terminal] (no residue);
 (5) metamorphic: the same input fed in generated pieces (cuts inside escape
     sequences and inside multi-byte characters) gives the same screen text,
     cursor, saved cursor, scroll region, parser state and memory.
Thorough adds an exhaustive sweep (all sequences of <= 4 tokens from a
30-token alphabet on 2x2 and 2x3) and a coverage-guided atheris campaign over
the same token table.
"""
import codecs
import itertools
import os
import re
import subprocess
import sys
import tempfile
import time
import warnings

from hypothesis import strategies as st

from ..common import Violation, Collector, run_batches, guard, case_watchdog, VERIF

warnings.simplefilter('ignore')
from pexpect import ANSI as ansi_mod     # noqa: E402

PROPERTY = 'C18'
RULE = ('Hypothesis-generated sequences of <= 40 terminal tokens on screens 1x1..4x5 and 24x80, as str or bytes '
        '(latin-1/utf-8/cp437), with up to 4 generated cut points; oracles: no exception, exact shape, cursor on '
        'screen, no parser residue after each completed sequence (independent regex segmentation), identical '
        'final state under any chunking.  Non-trivial: the input contains a parameterised sequence and a scroll '
        'or wrap happened, or a cut fell strictly inside an escape sequence or a multi-byte character.  Distinct '
        'by hash of the case.  Thorough: + exhaustive sweep of all <= 4-token sequences over a 30-token alphabet '
        'on 2x2 and 2x3 (whole vs character-by-character feeding), + atheris campaign.')
ASSUMPTIONS = [
    'a completed sequence is defined by the regular expression SEQ in this file, written from the VT100 grammar '
    'the emulator documents; a sequence following a truncated one is legitimately consumed as its continuation',
    'numeric parameters up to 12 digits (CPython refuses int() of > 4300 digits); sequences up to 40 tokens',
    'bytes input is a valid encoding of the text and cuts may fall anywhere; a third of the utf-8 cases instead carry '
    'invalid pieces (truncated / stray bytes of multi-byte characters), for which totality, shape and chunking are decided',
    'DoLog appends to ./log: every worker runs in a private temporary working directory',
]
BUDGET = {'quick': 200, 'thorough': 1700}
EXHAUSTIVE_NOTE = 'all token sequences of length <= 4 over a 30-token alphabet on 2x2 and 2x3 screens'

ESC = '\x1b'
SEQ = re.compile(
    r'[^\x1b]'
    r'|\x1b[^\[()#]'
    r'|\x1b[()#].'
    r'|\x1b\[[^0-9?]'
    r'|\x1b\[\?[^0-9]'
    r'|\x1b\[\?[0-9]+[^0-9]'
    r'|\x1b\[[0-9]+[^0-9;]'
    r'|\x1b\[[0-9]+;[^0-9]'
    r'|\x1b\[[0-9]+;[0-9]+[^0-9;]'
    r'|\x1b\[[0-9]+;[0-9]+(?:;[0-9]+)*;[^0-9]'
    r'|\x1b\[[0-9]+;[0-9]+(?:;[0-9]+)+[^0-9;]',
    re.DOTALL)


def shards(tier):
    n = 4000 if tier == 'quick' else 80000
    out = []
    if tier == 'thorough':
        # bounded sub-tiers first, so that the random search gets whatever budget is left
        out += [{'kind': 'sweep', 'dims': d, 'part': k, 'parts': 8} for d in ([2, 2], [2, 3]) for k in range(8)]
        out += [{'kind': 'fuzz', 'seconds': 300, 'corpus': c} for c in ('empty', 'vt')]
    out += [{'kind': 'rand', 'n': n} for _ in range(14)]
    out += [{'kind': 'vt', 'n': 30 if tier == 'quick' else 1500} for _ in range(2)]
    return out


def params(rows, cols):
    return ['0', '1', '2', str(max(1, rows // 2)), str(rows), str(cols), str(rows + 1), str(cols + 1), '9999999999', '007']


@st.composite
def token(draw, rows, cols, wide):
    k = draw(st.integers(0, 19))
    P = st.sampled_from(params(rows, cols))
    if k <= 4:
        pool = ['a', 'b', 'Z', ' ', '~', '\xe9', '\xff'] + (['€', '\U0001d11e'] if wide else [])
        return draw(st.sampled_from(pool))
    if k == 5:
        return draw(st.sampled_from(['\r', '\n', '\x08', '\x00', '\r\n', '\t', '\x07']))
    if k == 6:
        return ESC + draw(st.sampled_from(['7', '8', 'M', '>', '<', '=', 'D', 'E', 'H', 'c', 'x', ESC]))
    if k == 7:
        return ESC + draw(st.sampled_from(['(', ')', '#'])) + draw(st.sampled_from(['A', 'B', '0', '1', '2', '8', 'x']))
    if k == 8:
        return ESC + '[' + draw(st.sampled_from(['H', 'D', 'B', 'C', 'A', 'J', 'K', 'r', 'm', 's', 'u', 'x', 'g']))
    if k in (9, 10):
        return ESC + '[' + draw(P) + draw(st.sampled_from(['D', 'B', 'C', 'A', 'J', 'K', 'l', 'm', 'q', 'h', 'x', 'H', 'r', 'g']))
    if k in (11, 12, 13):
        return ESC + '[' + draw(P) + ';' + draw(P) + draw(st.sampled_from(['H', 'f', 'r', 'r', 'm', 'q', 'x', 'J']))
    if k == 14:
        n = draw(st.integers(1, 3))
        return ESC + '[' + draw(P) + ';' + draw(P) + ''.join(';' + draw(P) for _ in range(n)) + draw(st.sampled_from(['m', 'q', 'H', 'x']))
    if k == 15:
        return ESC + '[?' + draw(P) + draw(st.sampled_from(['h', 'l', 'x']))
    if k == 16:
        # truncated prefixes
        return draw(st.sampled_from([ESC, ESC + '[', ESC + '[1', ESC + '[1;', ESC + '[1;2', ESC + '[1;2;', ESC + '[1;2;3',
                                     ESC + '(', ESC + '#', ESC + '[?', ESC + '[?4']))
    if k == 17:
        return ESC + '[' + draw(P) + ';' + draw(st.sampled_from(['m', 'H', 'x', ';', ESC]))
    if k == 18:
        return ESC + '[?' + draw(st.sampled_from(['x', 'h', ';', ESC]))
    return 'ab' * draw(st.integers(1, 3))


@st.composite
def cases(draw):
    big = draw(st.integers(0, 9)) == 0
    rows, cols = (24, 80) if big else (draw(st.integers(1, 4)), draw(st.integers(1, 5)))
    enc = draw(st.sampled_from([None, None, 'latin-1', 'utf-8', 'cp437']))
    wide = enc in (None, 'utf-8')
    toks = draw(st.lists(token(rows, cols, wide), min_size=1, max_size=40))
    if enc in ('latin-1', 'cp437'):
        toks = [t.encode(enc, 'replace').decode(enc) for t in toks]
    total = len(''.join(toks).encode(enc)) if enc else len(''.join(toks))
    cuts = sorted(draw(st.lists(st.integers(0, total), min_size=0, max_size=4)))
    case = {'rows': rows, 'cols': cols, 'enc': enc, 'tokens': toks, 'cuts': cuts}
    if enc == 'utf-8' and draw(st.integers(0, 2)) == 0:
        # bytes that are not a valid encoding: truncated and stray pieces of multi-byte characters after some
        # tokens (a terminal is fed whatever the program prints); only totality, shape and chunking are decided
        case['junk'] = [[draw(st.integers(0, len(toks) - 1)),
                         draw(st.sampled_from([b'\xe2\x8c', b'\xc3', b'\xf0\x9f', b'\xf0\x9f\x98', b'\xff', b'\x80', b'\xa8']))]
                        for _ in range(draw(st.integers(1, 3)))]
    return case


def snapshot(t):
    mem = t.state.memory
    return {'screen': str(t), 'cur': (t.cur_r, t.cur_c), 'saved': (t.cur_saved_r, t.cur_saved_c),
            'region': (t.scroll_row_start, t.scroll_row_end), 'state': t.state.current_state,
            'memory': [('<term>' if m is t else m) for m in mem]}


def check_shape(t, rows, cols, after):
    if len(t.w) != rows:
        raise Violation('shape', 'after %r the grid has %d rows, not %d' % (after, len(t.w), rows))
    for i, row in enumerate(t.w):
        if len(row) != cols:
            raise Violation('shape', 'after %r row %d has %d cells, not %d' % (after, i + 1, len(row), cols))
        for cell in row:
            if not isinstance(cell, str) or len(cell) != 1:
                raise Violation('shape', 'after %r a cell holds %r' % (after, cell))
    if not (1 <= t.cur_r <= rows and 1 <= t.cur_c <= cols):
        raise Violation('cursor-off-screen', 'after %r the cursor is at (%r,%r) on a %dx%d screen' % (after, t.cur_r, t.cur_c, rows, cols))


def new_term(rows, cols, enc):
    if enc:
        return ansi_mod.ANSI(rows, cols, encoding=enc)
    return ansi_mod.ANSI(rows, cols)


def check_junk(case, col=None):
    """utf-8 bytes input with invalid pieces: never raises, keeps its shape, and the result does not depend on
    how the bytes were cut (cuts right after each invalid piece and one byte later, plus the generated ones)."""
    rows, cols = case['rows'], case['cols']
    after = {}
    for k, j in case['junk']:
        after.setdefault(k, []).append(j)
    data = b''
    marks = set()
    for i, tok in enumerate(case['tokens']):
        data += tok.encode('utf-8')
        for j in after.get(i, []):
            data += j
            marks.add(len(data))
            marks.add(len(data) + 1)
            marks.add(len(data) + 2)
    t2 = new_term(rows, cols, 'utf-8')
    with guard('ANSI.write(whole input, invalid utf-8)'):
        t2.write(data)
    check_shape(t2, rows, cols, data[-20:])
    whole = snapshot(t2)
    cuts = sorted(set(c for c in list(case['cuts']) + list(marks) if 0 < c < len(data)))
    pts = [0] + cuts + [len(data)]
    t3 = new_term(rows, cols, 'utf-8')
    with guard('ANSI.write(pieces, invalid utf-8)'):
        for i in range(len(pts) - 1):
            t3.write(data[pts[i]:pts[i + 1]])
    check_shape(t3, rows, cols, data[-20:])
    s3 = snapshot(t3)
    if s3 != whole:
        raise Violation('chunking', 'invalid utf-8 input %r fed in pieces cut at %r: %r; fed at once: %r' % (data[:80], cuts, s3, whole))
    if col is not None:
        col.label('input=utf-8-with-invalid-bytes')
        col.case(case, True)
    return True


def check_case(case, col=None):
    if case.get('junk'):
        return check_junk(case, col)
    rows, cols, enc = case['rows'], case['cols'], case['enc']
    text = ''.join(case['tokens'])
    data = text.encode(enc) if enc else text
    feats = set()
    # (1)-(4): feed completed segment by completed segment
    t = new_term(rows, cols, enc)
    pos = 0
    scrolled = [False]
    first_row = None
    while pos < len(text):
        m = SEQ.match(text, pos)
        seg = m.group(0) if m else text[pos:]
        before_rows = [''.join(r) for r in t.w] if len(t.w) == rows else None
        with guard('ANSI.write(%r)' % seg):
            t.write(seg.encode(enc) if enc else seg)
        check_shape(t, rows, cols, seg)
        if m:
            if t.state.current_state != 'INIT':
                raise Violation('parser-residue', 'after the completed sequence %r the parser is in state %r'
                                % (seg, t.state.current_state))
            mem = t.state.memory
            if len(mem) != 1 or mem[0] is not t:
                raise Violation('parser-residue', 'after the completed sequence %r the parser memory holds %r'
                                % (seg, [x for x in mem if x is not t]))
            if len(seg) > 2 and any(ch.isdigit() for ch in seg):
                feats.add('parameterised')
            if before_rows and rows > 1 and [''.join(r) for r in t.w][:-1] == before_rows[1:] and before_rows[0] != before_rows[-1]:
                feats.add('scrolled')
        pos += len(seg)
    whole = snapshot(t)
    # (5) chunking: one write of everything, and the generated pieces
    t2 = new_term(rows, cols, enc)
    with guard('ANSI.write(whole input)'):
        t2.write(data)
    s2 = snapshot(t2)
    if s2 != whole:
        raise Violation('chunking', 'fed at once: %r; fed sequence by sequence: %r' % (s2, whole))
    cuts = [c for c in case['cuts'] if 0 < c < len(data)]
    if cuts:
        t3 = new_term(rows, cols, enc)
        pts = [0] + cuts + [len(data)]
        with guard('ANSI.write(pieces)'):
            for i in range(len(pts) - 1):
                t3.write(data[pts[i]:pts[i + 1]])
        s3 = snapshot(t3)
        if s3 != whole:
            raise Violation('chunking', 'fed in pieces cut at %r: %r; fed at once: %r' % (cuts, s3, whole))
        # is a cut strictly inside an escape sequence / a multi-byte character?
        bounds = set()
        p = 0
        for m in SEQ.finditer(text):
            seg = m.group(0)
            ln = len(seg.encode(enc)) if enc else len(seg)
            if len(seg) > 1 and any(p < c < p + ln for c in cuts):
                feats.add('cut-inside-sequence')
            if enc and len(seg) == 1 and ln > 1 and any(p < c < p + ln for c in cuts):
                feats.add('cut-inside-character')
            p += ln
    nt = ('parameterised' in feats and 'scrolled' in feats) or 'cut-inside-sequence' in feats or 'cut-inside-character' in feats
    if col is not None:
        for f in feats:
            col.label(f)
        col.label('input=' + (enc or 'str'))
        col.case(case, nt)
    return nt


# ---------------------------------------------------------------------------
# exhaustive sub-sweep

def sweep_alphabet(rows, cols):
    E = ESC
    return ['a', '\n', '\r', '\x08', E, E + '[', E + 'M', E + '7', E + '8', E + '[H', E + '[J', E + '[K', E + '[r',
            E + '[1', E + '[0J', E + '[1J', E + '[2K', E + '[%dB' % (rows + 1), E + '[0A', E + '[9C',
            E + '[1;', E + '[0;0r', E + '[1;0r', E + '[%d;%dr' % (rows + 1, rows + 2), E + '[2;1r',
            E + '[%d;%dH' % (rows, cols), E + '[0;0H', E + '[1;2;3m', E + '[?4h', E + '(A']


def run_sweep(spec, col, deadline_ts):
    rows, cols = spec['dims']
    alpha = sweep_alphabet(rows, cols)
    assert len(alpha) == 30
    n = 0
    for length in (1, 2, 3, 4):
        for i, seq in enumerate(itertools.product(alpha, repeat=length)):
            if i % spec['parts'] != spec['part']:
                continue
            if deadline_ts and (n & 2047) == 0 and time.time() > deadline_ts:
                col.inconclusive = True
                col.count('exhaustive_cases_partial', n)
                return
            text = ''.join(seq)
            case = {'rows': rows, 'cols': cols, 'enc': None, 'tokens': list(seq),
                    'cuts': list(range(1, len(text)))}      # character by character
            n += 1
            try:
                check_case(case, col)
            except Violation as v:
                col.fail(v.key, v.what, case)
                if len(col.failures) >= 4:
                    return
    col.count('exhaustive_cases', n)


# ---------------------------------------------------------------------------
# atheris campaign (thorough)

def run_fuzz(spec, col, deadline_ts):
    deps = os.path.join(VERIF, '.deps')
    if not os.path.isdir(deps) and os.path.isdir('/verif/.deps'):
        deps = '/verif/.deps'         # running from a snapshot of the committed files
    env = dict(os.environ)
    env['PYTHONPATH'] = os.pathsep.join([env.get('VERIF_REPO', '/repo'), VERIF, deps])
    probe = subprocess.run([sys.executable, '-c', 'import atheris'], env=env, capture_output=True)
    if probe.returncode != 0:
        col.notes.append('atheris not importable: fuzz sub-tier skipped')
        return
    work = tempfile.mkdtemp(prefix='c18fuzz_')
    try:
        corpus = os.path.join(work, 'corpus')
        os.makedirs(corpus)
        if spec['corpus'] == 'vt':
            from . import c18_fuzz
            c18_fuzz.write_seed_corpus(corpus)
        secs = int(max(10, min(spec['seconds'], (deadline_ts - time.time() - 30) if deadline_ts else spec['seconds'])))
        cmd = [sys.executable, '-B', '-m', 'vf.props.c18_fuzz', corpus, '-max_total_time=%d' % secs,
               '-seed=%d' % (int(os.environ.get('VERIF_SEED', '1')) or 1), '-max_len=256', '-print_final_stats=1',
               '-artifact_prefix=' + work + '/']
        r = subprocess.run(cmd, env=env, cwd=work, capture_output=True, text=True, timeout=secs + 300)
        out = r.stdout + r.stderr
        execs = re.findall(r'stat::number_of_executed_units:\s*(\d+)', out)
        if execs:
            col.count('fuzz_execs', int(execs[-1]))
        covs = re.findall(r'cov: (\d+)', out)
        if covs:
            col.extra['fuzz_cov_' + spec['corpus']] = int(covs[-1])
        col.count('fuzz_corpus_files', len(os.listdir(corpus)))
        crashes = [f for f in os.listdir(work) if f.startswith('crash-')]
        for c in crashes[:3]:
            from . import c18_fuzz
            data = open(os.path.join(work, c), 'rb').read()
            case = c18_fuzz.decode_case(data)
            try:
                check_case(case)
                col.notes.append('atheris crash file did not reproduce through the oracle: %s' % out[-300:])
            except Violation as v:
                col.fail(v.key, v.what, case)
        if r.returncode != 0 and not crashes:
            col.notes.append('atheris exited %d without a crash file: %s' % (r.returncode, out[-300:]))
    finally:
        import shutil
        shutil.rmtree(work, ignore_errors=True)


def body(case, col):
    with case_watchdog(60, 'C18 case'):
        check_case(case, col)


# ---------------------------------------------------------------------------
# recorded terminal sessions of the repository, under generated chunkings

VT_FILES = ['torturet.vt', 'bambi.vt', 'globe.vt', 'tetris.data']


@st.composite
def vt_cases(draw):
    name = draw(st.sampled_from(VT_FILES))
    start = draw(st.integers(0, 20)) * 500
    length = draw(st.sampled_from([200, 1000, 4000]))
    ncuts = draw(st.integers(1, 12))
    cuts = sorted(draw(st.lists(st.integers(1, length - 1), min_size=ncuts, max_size=ncuts)))
    return {'file': name, 'start': start, 'length': length, 'cuts': cuts, 'as_bytes': draw(st.booleans()),
            'rows': draw(st.sampled_from([24, 24, 5])), 'cols': draw(st.sampled_from([80, 80, 7]))}


def check_vt(case, col=None):
    path = os.path.join(os.environ.get('VERIF_REPO', '/repo'), 'tests', case['file'])
    if not os.path.exists(path):
        path = os.path.join('/repo', 'tests', case['file'])       # recorded sessions are test data, not code under test
    with open(path, 'rb') as f:
        raw = f.read()[case['start']:case['start'] + case['length']]
    if not raw:
        if col is not None:
            col.discarded += 1
        return
    data = raw if case['as_bytes'] else raw.decode('latin-1')
    rows, cols = case['rows'], case['cols']
    t1 = new_term(rows, cols, 'latin-1')
    with guard('ANSI.write(recorded session %s)' % case['file']):
        t1.write(data)
    check_shape(t1, rows, cols, case['file'])
    whole = snapshot(t1)
    t2 = new_term(rows, cols, 'latin-1')
    pts = [0] + [c for c in case['cuts'] if c < len(data)] + [len(data)]
    with guard('ANSI.write(pieces of %s)' % case['file']):
        for i in range(len(pts) - 1):
            t2.write(data[pts[i]:pts[i + 1]])
    s2 = snapshot(t2)
    if s2 != whole:
        raise Violation('chunking', '%s[%d:%d] fed in pieces cut at %r differs from fed at once (cursor %r vs %r, state %r vs %r)'
                        % (case['file'], case['start'], case['start'] + case['length'], case['cuts'], s2['cur'], whole['cur'],
                           s2['state'], whole['state']))
    if col is not None:
        col.label('recorded-session')
        col.case(case, True)


def run_shard(spec, seed, idx, deadline_ts):
    col = Collector()
    cwd = os.getcwd()
    tmp = tempfile.mkdtemp(prefix='c18_')
    os.chdir(tmp)            # DoLog appends to ./log
    try:
        if spec['kind'] == 'sweep':
            run_sweep(spec, col, deadline_ts)
        elif spec['kind'] == 'fuzz':
            run_fuzz(spec, col, deadline_ts)
        elif spec['kind'] == 'vt':
            def vbody(case, c):
                with case_watchdog(120, 'C18 recorded session'):
                    check_vt(case, c)
            run_batches(vbody, vt_cases(), spec['n'], seed * 1000 + idx, col, deadline_ts=deadline_ts)
        else:
            run_batches(body, cases(), spec['n'], seed * 1000 + idx, col, deadline_ts=deadline_ts)
    finally:
        os.chdir(cwd)
        import shutil
        shutil.rmtree(tmp, ignore_errors=True)
    return col


def replay(case, spec=None):
    cwd = os.getcwd()
    tmp = tempfile.mkdtemp(prefix='c18_')
    os.chdir(tmp)
    try:
        if 'file' in case:
            check_vt(case)
        else:
            check_case(case)
    finally:
        os.chdir(cwd)
        import shutil
        shutil.rmtree(tmp, ignore_errors=True)


def _probe(fn):
    def run():
        cwd = os.getcwd()
        tmp = tempfile.mkdtemp(prefix='c18_')
        os.chdir(tmp)
        try:
            fn()
        finally:
            os.chdir(cwd)
            import shutil
            shutil.rmtree(tmp, ignore_errors=True)
    return run


def _probe_region():
    check_case({'rows': 2, 'cols': 1, 'enc': None, 'tokens': [ESC + '[1;0r', ESC + '[2;1H', 'c', 'd'], 'cuts': []})
    check_case({'rows': 2, 'cols': 2, 'enc': None, 'tokens': [ESC + '[0;0r', '\n', '\n', ESC + 'M', 'x'], 'cuts': [3]})


PROBES = [('probe:scroll-region-end-0', 'ESC[1;0r then output at the bottom line resizes the grid / raises', _probe(_probe_region))]
