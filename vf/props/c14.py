"""C14 asyncio parity: async_=True gives the same answers as the blocking call.

A real fdspawn on a pipe is driven through a generated history of expect /
expect_exact / expect_list calls, some blocking and some awaited, while a
writer puts generated pieces into the pipe: before a call, between calls, one
or several pieces per event-loop turn while an await is outstanding, EOF after
or together with the last data.  A recording logfile_read shows exactly which
chunks the transport (the asyncio protocol, or the blocking read path) handed
over during which call.

Oracle (differential twin): the blocking implementation (the real Expecter on
the scripted transport) replays the same calls with the *observed* chunk
sequence of every call; index / exception class, before, after, match groups
and span, and the pending text must be equal after every call, up to and
including the first EOF.  TIMEOUT parity is only claimed on silent schedules;
an awaited call with a timeout on a silent pipe must return within
[T - 2 ms, T + 2 s] wall clock.
"""
import asyncio
import os
import re
import time

from hypothesis import strategies as st

from ..common import Violation, Collector, run_batches, guard, case_watchdog
from ..engines import e1, scripted

import pexpect
from pexpect import fdpexpect
from pexpect.exceptions import EOF, TIMEOUT

PROPERTY = 'C14'
RULE = ('Hypothesis-generated histories (1-5 calls, each blocking or awaited; regex or exact patterns; window; bytes|'
        'utf-8) x arrival schedules (pieces written before a call, between calls, one or several per loop turn during '
        'an await, EOF after/with the last data, silence) on a real fdspawn (select or poll) over a pipe or a pty pair, incl. awaited timeout=0 polls and blocking waits with no limit / 0.9 s whose text a timer thread writes 50 ms in; twin replay of the observed '
        'chunks on the blocking implementation.  Non-trivial: >= 2 awaited calls with data arriving both during and '
        'between them, or blocking and awaited calls mixed on one object with data pending across the switch.  '
        'Distinct by hash of the case.')
ASSUMPTIONS = [
    'the chunks a transport handed over are observed through logfile_read (one write per read)',
    'all scheduled pieces are written within a few event-loop turns of the start of a call, far inside its 0.3 s '
    'timeout, so no data is in flight when a TIMEOUT fires',
    'comparison stops after the first EOF (asyncio closes the pipe object then)',
]
BUDGET = {'quick': 240, 'thorough': 1500}


def shards(tier):
    q = tier == 'quick'
    return [{'n': 120 if q else 4000} for _ in range(16)]


@st.composite
def cases(draw):
    text_mode = draw(st.booleans())
    ncalls = draw(st.integers(1, 5))
    calls = []
    eof_done = False
    for i in range(ncalls):
        mode = draw(st.sampled_from(['async', 'async', 'sync']))
        exact = draw(st.booleans())
        pats = draw(e1.pattern_list(text_mode, exact, min_text=1, max_len=3))
        pats = [p for p in pats if p != 'TIMEOUT' or draw(st.booleans())]
        if not any(isinstance(p, dict) for p in pats):
            pats.append({'ex': 'a'} if exact else {'re': 'a'})
        silent = draw(st.integers(0, 5)) == 0
        pre = [draw(e1.streams(text_mode, 5)).encode('utf-8') for _ in range(draw(st.integers(0, 2)))] if not silent or draw(st.booleans()) else []
        during = []
        eof = None
        if not silent:
            if mode == 'async':
                for _ in range(draw(st.integers(0, 3))):
                    during.append([draw(e1.streams(text_mode, 4)).encode('utf-8') for _ in range(draw(st.integers(1, 3)))])
            if not eof_done and draw(st.integers(0, 3)) == 0:
                eof = draw(st.sampled_from(['pre', 'after', 'with-last'])) if mode == 'async' else 'pre'
                eof_done = True
        cut = draw(st.booleans())
        late = False
        if mode == 'async' and not eof and draw(st.integers(0, 7)) == 0:
            late = True
            exact = True
            pats = [{'ex': 'ZQ'}]
            during = []
            silent = False
        poll = False
        if mode == 'async' and not eof and not late and i > 0 and draw(st.integers(0, 4)) == 0:
            # a poll: timeout=0 while output (written before the call) is waiting in the descriptor
            poll = True
            during = []
            silent = False
            if not any(pre):
                pre = [draw(e1.streams(text_mode, 5)).encode('utf-8') or b'ab']
        none_timeout = False
        if mode == 'sync' and not eof and i > 0 and draw(st.integers(0, 3)) == 0:
            # a blocking call without a time limit that has to wait: its match is written by a timer thread 50 ms in
            none_timeout = True
            exact = True
            pats = [{'ex': 'ZQ'}]
            silent = False
        # ... or with a limit far beyond those 50 ms
        sync_T = draw(st.sampled_from([None, 0.9])) if none_timeout else None
        calls.append({'sync_T': sync_T, 'mode': mode, 'op': 'expect_exact' if (exact or late) else draw(st.sampled_from(['expect', 'expect_list'])),
                      'pats': pats, 'w': (draw(st.sampled_from([None, -1, 5, 20])) if none_timeout else draw(e1.windows())),
                      'pre': pre, 'during': during, 'eof': eof, 'silent': silent,
                      'cut_chars': cut, 'late': late, 'none_timeout': none_timeout, 'poll': poll})
        if eof:
            break
    return {'enc': 'utf-8' if text_mode else None, 'maxread': draw(st.sampled_from([2000, 2000, 3])), 'calls': calls,
            'kind': draw(st.sampled_from(['pipe', 'pipe', 'pty'])), 'use_poll': draw(st.booleans())}


class ChunkLog(object):
    def __init__(self):
        self.cur = None
        self.chunks = {}

    def write(self, s):
        self.chunks.setdefault(self.cur, []).append(s)

    def flush(self):
        pass


def split_pieces(pieces, cut):
    """optionally cut every piece in two at a byte offset that may fall inside a multi-byte character"""
    if not cut:
        return pieces
    out = []
    for p in pieces:
        if len(p) >= 2:
            k = len(p) // 2
            out += [p[:k], p[k:]]
        else:
            out.append(p)
    return out


def observe(sp):
    m = sp.match
    mm = None
    if hasattr(m, 'span'):
        mm = (m.span(), m.groups())
    elif m is EOF:
        mm = 'EOF'
    elif m is TIMEOUT:
        mm = 'TIMEOUT'
    elif m is not None:
        mm = m
    after = sp.after
    if after is EOF:
        after = 'EOF'
    elif after is TIMEOUT:
        after = 'TIMEOUT'
    return {'before': sp.before, 'after': after, 'match': mm, 'match_index': sp.match_index, 'buffer': sp.buffer}


def do_call_args(c, text_mode, sp):
    exact = c['op'] == 'expect_exact'
    nat = e1.native_patterns(c['pats'], text_mode, exact)
    if c['op'] == 'expect_list':
        nat = sp.compile_pattern_list(nat)
    return nat


def check_case(case, col=None):
    text_mode = case['enc'] is not None
    if case.get('kind') == 'pty':
        # a pty pair: the harness is the child (slave in raw mode); end of stream arrives as EIO on the master,
        # i.e. through connection_lost() instead of eof_received()
        import tty
        r, w = os.openpty()
        tty.setraw(w)
    else:
        r, w = os.pipe()
    w_open = [True]
    log = ChunkLog()
    kw = {'maxread': case['maxread'], 'timeout': 5}
    if text_mode:
        kw['encoding'] = 'utf-8'
    if case.get('use_poll'):
        kw['use_poll'] = True
    sp = fdpexpect.fdspawn(r, **kw)
    sp.logfile_read = log
    results = []
    timings = []
    written = [b'']
    written_at = []          # bytes written by the end of each call
    loop = asyncio.new_event_loop()

    def put(p):
        os.write(w, p)
        written[0] += p

    def settle():
        # a write to the slave side becomes readable on the master from a kernel worker, not at once: "written
        # before the call" only means "waiting in the descriptor" once the master's queue holds it
        import fcntl
        import struct
        import termios
        got = b''.join([(ch.encode('utf-8') if text_mode else ch) for k in sorted(log.chunks) for ch in log.chunks[k]])
        held = len(sp._decoder.getstate()[0]) if text_mode else 0
        want = len(written[0]) - len(got) - held
        t_end = time.time() + 3.0
        while time.time() < t_end:
            if struct.unpack('i', fcntl.ioctl(r, termios.FIONREAD, b'\0\0\0\0'))[0] >= min(want, 4000):
                return True
            time.sleep(0.0005)
        return False

    def close_w():
        if w_open[0]:
            os.close(w)
            w_open[0] = False

    async def history():
        for i, c in enumerate(case['calls']):
            log.cur = i
            for p in split_pieces(c['pre'], c['cut_chars']):
                if p and w_open[0]:
                    put(p)
            if case.get('kind') == 'pty' and w_open[0] and not settle():
                return 'unsettled'
            if c['eof'] == 'pre':
                close_w()
            has_data = any(c['pre']) or any(any(g) for g in c['during']) or c['eof']
            T = 0.06 if (c['silent'] or not has_data) else 0.3
            if c.get('late'):
                T = 0.05
            if c.get('poll'):
                T = 0
            nat = do_call_args(c, text_mode, sp)
            method = {'expect': sp.expect, 'expect_exact': sp.expect_exact, 'expect_list': sp.expect_list}[c['op']]
            ret = exc = None
            t0 = time.time()
            try:
                if c['mode'] == 'sync' and c.get('none_timeout'):
                    import threading
                    tm = threading.Timer(0.05, lambda: w_open[0] and put(b'ZQ'))
                    tm.start()
                    try:
                        if c.get('sync_T'):
                            T = c['sync_T']
                        ret = method(nat, timeout=c.get('sync_T'), searchwindowsize=c['w'])
                    finally:
                        tm.join()
                elif c['mode'] == 'sync':
                    ret = method(nat, timeout=T, searchwindowsize=c['w'])
                else:
                    async def writer():
                        groups = c['during']
                        if c.get('late'):
                            # pieces straddling the deadline: some arrive after the future has been cancelled
                            await asyncio.sleep(max(0.0, T - 0.0015))
                            for _ in range(12):
                                if w_open[0]:
                                    put(b'ab')
                                await asyncio.sleep(0.0003)
                            return
                        for gi, g in enumerate(groups):
                            await asyncio.sleep(0)
                            await asyncio.sleep(0)
                            for p in g:
                                if not p or not w_open[0]:
                                    continue
                                if c['cut_chars'] and len(p) >= 2:
                                    # the two halves arrive in different loop turns: the cut may fall inside a character
                                    put(p[:len(p) // 2])
                                    await asyncio.sleep(0)
                                    await asyncio.sleep(0)
                                    put(p[len(p) // 2:])
                                else:
                                    put(p)
                            if c['eof'] == 'with-last' and gi == len(groups) - 1:
                                close_w()
                        if c['eof'] == 'after' or (c['eof'] == 'with-last' and not groups):
                            await asyncio.sleep(0)
                            await asyncio.sleep(0)
                            close_w()
                    wt = asyncio.ensure_future(writer())
                    try:
                        ret = await method(nat, timeout=T, searchwindowsize=c['w'], async_=True)
                    finally:
                        await wt
            except EOF:
                exc = 'EOF'
            except TIMEOUT:
                exc = 'TIMEOUT'
            timings.append((time.time() - t0, T))
            written_at.append(written[0])
            results.append((ret, exc, observe(sp)))
            if exc == 'EOF' or sp.after is EOF:
                break
        log.cur = 'end'

    unsettled = False
    try:
        with guard('async/sync history on fdspawn', allow=(EOF, TIMEOUT)):
            unsettled = loop.run_until_complete(history()) == 'unsettled'
    finally:
        try:
            if sp.async_pw_transport:
                sp.async_pw_transport[1].close()
            loop.run_until_complete(asyncio.sleep(0))
        except Exception:
            pass
        loop.close()
        close_w()
        try:
            os.close(r)
        except OSError:
            pass
    if unsettled:
        # the kernel had not moved the text to the reading side within 3 s: nothing can be said about this history
        if col is not None:
            col.label('discarded:pty-unsettled')
            col.case(case, False)
        return
    # ---- twin replay on the blocking implementation
    clock = scripted.VirtualClock()
    tkw = {'maxread': 1 << 30, 'timeout': 5}
    if text_mode:
        tkw['encoding'] = 'utf-8'
    twin = scripted.ScriptedSpawn([], tail='timeout', clock=clock, **tkw)
    n_async_with_during = 0
    mixed_pending = False
    prev_mode = None
    with scripted.virtual_time(clock):
        for i, (ret, exc, obs) in enumerate(results):
            c = case['calls'][i]
            chunks = log.chunks.get(i, [])
            outcome_eof = (exc == 'EOF' or obs['after'] == 'EOF')
            outcome_to = (exc == 'TIMEOUT' or obs['after'] == 'TIMEOUT')
            twin.script = [('s', ch) for ch in chunks]
            if outcome_eof:
                twin.script.append(('e',))
            else:
                twin.script.append(('t',))
            nat = do_call_args(c, text_mode, twin)
            method = {'expect': twin.expect, 'expect_exact': twin.expect_exact, 'expect_list': twin.expect_list}[c['op']]
            tret = texc = None
            pend_before = twin.buffer
            try:
                tret = method(nat, timeout=1, searchwindowsize=c['w'])
            except EOF:
                texc = 'EOF'
            except TIMEOUT:
                texc = 'TIMEOUT'
            tobs = observe(twin)
            where = 'call %d (%s %s, window %r)' % (i, c['mode'], c['op'], c['w'])
            if (ret, exc) != (tret, texc):
                raise Violation('parity:outcome:' + c['mode'], '%s returned %r / raised %r; the blocking call on the same chunks %r '
                                '(pending %r) returns %r / raises %r' % (where, ret, exc, chunks, pend_before, tret, texc))
            for k in ('before', 'after', 'match', 'match_index', 'buffer'):
                if obs[k] != tobs[k]:
                    raise Violation('parity:%s:%s' % (k, c['mode']), '%s: %s is %r, the blocking call on the same chunks %r leaves %r'
                                    % (where, k, obs[k], chunks, tobs[k]))
            if outcome_to and c['eof'] and not c.get('late'):
                # the writer closed its end within a few loop turns of the start of this call, far inside the timeout
                raise Violation('eof-not-reported:' + c['mode'], '%s ended in TIMEOUT although the peer closed the stream during '
                                'the call (chunks %r)' % (where, chunks))
            if outcome_to and c.get('sync_T'):
                # the text was due 50 ms into a blocking call with a limit of 0.9 s
                if timings[i][0] < c['sync_T'] - 0.05:
                    raise Violation('sync-early-timeout', '%s: blocking call with timeout %.1f gave up after %.3f s, before '
                                    'the text written 0.05 s into the call arrived' % (where, c['sync_T'], timings[i][0]))
                if col is not None:
                    col.label('discarded:writer-thread-late')
                    col.case(case, False)
                return
            if outcome_to or outcome_eof:
                # nothing that was written before the call ended may still sit undelivered in the pipe
                got_all = (''.join if text_mode else b''.join)([ch for j in range(i + 1) for ch in log.chunks.get(j, [])])
                want_all = written_at[i]
                if text_mode:
                    import codecs
                    want_all = codecs.getincrementaldecoder('utf-8')().decode(want_all, False)
                if got_all != want_all and not c.get('late'):
                    raise Violation('undelivered:' + c['mode'], '%s ended in %s although %d of the %d characters written so far were '
                                    'never delivered' % (where, 'EOF' if outcome_eof else 'TIMEOUT', len(want_all) - len(got_all), len(want_all)))
            el, T = timings[i]
            if c['mode'] == 'async' and outcome_to:
                if el < T - 0.002:
                    raise Violation('async-early-timeout', '%s: awaited TIMEOUT after %.4f s wall for timeout %.2f' % (where, el, T))
                if el > T + 2.0:
                    raise Violation('async-timeout-overrun', '%s: awaited call took %.2f s wall for timeout %.2f' % (where, el, T))
            if c.get('late') and len(chunks) >= 1:
                pass
            if c['mode'] == 'async' and len(chunks) >= 1 and c['during']:
                n_async_with_during += 1
            if prev_mode is not None and prev_mode != c['mode'] and len(pend_before) > 0:
                mixed_pending = True
            prev_mode = c['mode']
    n_async = sum(1 for c in case['calls'][:len(results)] if c['mode'] == 'async')
    nt = (n_async >= 2 and n_async_with_during >= 1 and any(c['pre'] for c in case['calls'][1:len(results)])) or mixed_pending
    if col is not None:
        if mixed_pending:
            col.label('sync/async-switch-with-pending-text')
        if n_async_with_during:
            col.label('data-during-await')
        if any((x[1] == 'EOF' or x[2]['after'] == 'EOF') for x in results):
            col.label('EOF-reached')
        col.label('transport=' + case.get('kind', 'pipe'))
        if any((x[1] == 'TIMEOUT' or x[2]['after'] == 'TIMEOUT') for x in results):
            col.label('TIMEOUT-on-silence')
        col.case(case, nt)


def run_shard(spec, seed, idx, deadline_ts):
    col = Collector()

    def body(case, c):
        with case_watchdog(120, 'C14 history'):
            check_case(case, c)
    run_batches(body, cases(), spec['n'], seed * 1000 + idx, col, batch=200, deadline_ts=deadline_ts)
    return col


def replay(case, spec=None):
    check_case(case)


PROBES = []
