"""C05 Deadlines: a timeout is an overall bound, honoured whatever the child does.

Part A (E2, virtual time, decisive).  Arrival schedules relative to the
deadline (silence; a trickle of non-matching bytes every delta << T running
past T; a non-matching burst just before/after T; a matching chunk at a
generated time; exit; EINTR injected into a wait) x T in {-1 -> instance
default, None, 0, small positive} x entry points {expect, expect_exact,
expect_list, expect_loop(searcher), read_nonblocking, waitnoecho} x {pty, fd,
socket} x select/poll, on real kernel objects with interposed syscalls.
Oracle, with t0,t1 virtual and n the number of interposed calls of the call:
 (a) t1-t0 <= T + n*1us (+ scripted sleeps): T plus an exactly accounted overhead;
 (b) TIMEOUT  =>  t1-t0 >= T while the peer is still connected;
 (c) a match arriving > 1 ms before the deadline must be reported, one arriving
     > 1 ms after it must not (the +-1 ms band is not generated);
 (d) T=None never yields TIMEOUT (a silent peer blocks: reported by the engine);
 (e) T=0 matches what is pending or readable at t0;
 (f) every timeout handed down to select/poll/recv is <= the remaining time;
 (g) read_nonblocking: <= size bytes, TIMEOUT exactly at its timeout when silent;
 (h) waitnoecho(T): True within one 0.1 s poll of ECHO going off, False in
     [T, T+0.1+eps] otherwise, None waits for the toggle, -1 = default.
Part B (E3, wall clock, confirmatory): real pty / Popen children with T = 0.3 s
against a 3 s trickle: never early (elapsed >= T - 2 ms) and no gross overrun
(elapsed <= T + 2.0 s); PopenSpawn lives here (its reader thread is not
harness-scheduled).
"""
import os
import re
import time

from hypothesis import strategies as st

from ..common import Violation, Collector, run_batches, guard, case_watchdog
from ..engines import simkernel, peers
from ..engines.simkernel import Blocked, TICK

import pexpect
from pexpect.exceptions import EOF, TIMEOUT
from pexpect.expect import searcher_re, searcher_string

PROPERTY = 'C05'
RULE = ('Part A: Hypothesis-generated (schedule, T, entry point, transport, select|poll) on real kernel objects with '
        'interposed syscalls and a virtual clock; oracles (a)-(h) of the module docstring.  Part B: real children, '
        'wall clock, one-sided margins.  Non-trivial: >= 3 reads before the outcome, or a peer action inside a '
        'blocking wait, or an EINTR injection, or T in {None, 0, -1}.  Distinct by hash of the case.')
ASSUMPTIONS = [
    'virtual time: every interposed call costs 1 us; the overhead term of (a) is the counted number of calls',
    'matching arrivals within 1 ms of the deadline are not generated',
    'EINTR is injected by raising InterruptedError from select/poll (on Python >= 3.5 the interpreter retries these '
    'calls itself; the handler in pexpect.utils is exercised as written)',
    'the hang-up-without-exit schedule is excluded from random generation and probed deterministically (open known finding)',
    'Part B margins are one-sided and load-proof: they can only catch gross overruns',
]
BUDGET = {'quick': 240, 'thorough': 1500}

MATCH = b'MATCH'


def shards(tier):
    q = tier == 'quick'
    out = [{'kind': 'sweep', 'part': k, 'parts': 3} for k in range(3)]
    out += [{'kind': 'sim', 'n': 6000 if q else 60000} for _ in range(9)]
    out += [{'kind': 'real', 'n': 12 if q else 150} for _ in range(4)]
    return out


@st.composite
def sim_cases(draw):
    kind = draw(st.sampled_from(['pty', 'pty', 'pipe', 'socket']))
    entries = ['expect', 'expect_exact', 'expect_list', 'expect_loop', 'read_nonblocking']
    if kind == 'pty':
        entries.append('waitnoecho')
    entry = draw(st.sampled_from(entries))
    Tsel = draw(st.sampled_from([-1, -1, None, 0, 0.25, 1.0, 7.5]))
    default_T = draw(st.sampled_from([0.5, 3.0]))
    Teff = default_T if Tsel == -1 else Tsel
    base = Teff if Teff not in (None, 0) else 1.0
    if entry == 'waitnoecho':
        sched = draw(st.sampled_from(['silence', 'trickle', 'eintr+trickle']))
    else:
        sched = draw(st.sampled_from(['silence', 'trickle', 'burst', 'match', 'match+trickle', 'exit', 'eintr', 'eintr+trickle']))
    enc = None
    if entry != 'waitnoecho' and kind != 'socket' and draw(st.integers(0, 9)) == 0:
        # unicode mode: the only thing that ever arrives is the first bytes of a multi-byte character (nothing the
        # decoder can hand out), then silence
        sched = 'halfchar'
        enc = 'utf-8'
    elif kind == 'pty' and Teff is not None and entry != 'waitnoecho' and draw(st.integers(0, 7)) == 0:
        # the child exits but something else keeps its terminal open and silent: no hang-up, no data; the death
        # is only visible through the liveness checks, and the call must still end by its deadline
        sched = 'exit-noclose'
    if kind == 'pty' and Teff not in (None, 0) and entry != 'waitnoecho' and enc is None and sched not in ('exit-noclose',) \
            and draw(st.integers(0, 9)) == 0:
        # the child closes its terminal while the reader is inside its timed wait, and goes on living: the hang-up
        # ends the call (EOF); only a hang-up that *precedes* the call is the open finding
        sched = 'hangup-in-wait'
    acts = []
    tm = None
    if 'trickle' in sched:
        delta = base / draw(st.sampled_from([7, 20, 53]))
        k = draw(st.sampled_from([1, 3]))
        n = int(3 * base / delta)
        for i in range(1, n + 1):
            acts.append({'t': i * delta, 'op': 'write', 'data': b'x' * k})
    if sched == 'burst':
        acts.append({'t': base * draw(st.sampled_from([0.0, 0.5, 0.99, 1.01])), 'op': 'write',
                     'data': b'y' * draw(st.sampled_from([1, 100, 3000]))})
    if sched.startswith('match'):
        frac = draw(st.sampled_from([0.0, 0.0, 0.3, 0.9, 0.99, 1.01, 1.5]))
        tm = base * frac
        if Teff == 0:
            tm = draw(st.sampled_from([0.0, 0.0, 0.5]))
        pre = draw(st.sampled_from([b'', b'ab']))
        acts.append({'t': tm, 'op': 'write', 'data': pre + MATCH + draw(st.sampled_from([b'', b'\r\n']))})
    te = None
    if sched == 'exit':
        te = base * draw(st.sampled_from([0.0, 0.4, 0.99, 1.01, 2.0]))
        if kind == 'pty':
            # exit and hang-up within a few microseconds of each other, in either order (a hang-up that
            # precedes the exit by more than that is the excluded known-finding class)
            acts.append({'t': te + draw(st.integers(0, 3)) * 1e-6, 'op': 'exit', 'status': draw(st.sampled_from([0, 256, 9]))})
        acts.append({'t': te + draw(st.integers(0, 3)) * 1e-6, 'op': 'close'})
    if sched == 'hangup-in-wait':
        te = base * draw(st.sampled_from([0.3, 0.6]))
        acts.append({'t': te, 'op': 'close'})
    if sched == 'halfchar':
        acts.append({'t': base * draw(st.sampled_from([0.0, 0.0, 0.3, 0.9])), 'op': 'write',
                     'data': draw(st.sampled_from([b'\xc3', b'\xe2\x82', b'\xf0\x9f\x98']))})
    if sched == 'exit-noclose':
        te = base * draw(st.sampled_from([0.0, 0.0, 0.4, 0.99, 1.01, 2.0]))
        acts.append({'t': te, 'op': 'exit', 'status': draw(st.sampled_from([0, 256, 9]))})
    if sched.startswith('eintr') and kind != 'socket':
        for f in draw(st.lists(st.sampled_from([0.2, 0.5, 0.8, 0.95]), min_size=1, max_size=3, unique=True)):
            acts.append({'t': base * f, 'op': 'eintr'})
    echo_off = None
    if entry == 'waitnoecho':
        acts = [a for a in acts if a['op'] != 'write' or True]
        if draw(st.booleans()):
            echo_off = base * draw(st.sampled_from([0.0, 0.3, 0.7, 1.5]))
            acts.append({'t': echo_off, 'op': 'echo', 'on': False})
    return {'kind': kind, 'entry': entry, 'T': Tsel, 'default_T': default_T, 'sched': sched, 'actions': acts,
            'tm': tm, 'te': te, 'echo_off': echo_off, 'use_poll': draw(st.booleans()), 'enc': enc,
            'size': draw(st.sampled_from([1, 100, 2000])),
            # the timeout the socket object already carries when it is handed to pexpect (socket transport only)
            'sock_timeout': draw(st.sampled_from([None, None, 0.0, 0.2, 11.0])) if kind == 'socket' else None,
            # (a long delayafterread makes the time needed to *read* arrived data significant: only where no match is expected)
            'delayafterread': draw(st.sampled_from([None, None, 0.0001] + ([0.01] if not (sched.startswith('match') or sched == 'exit') else [])))}


def expected(case, observed=None):
    """What the property demands.  Returns a dict:
         kind: 'match'|'data'|'timeout'|'eof'|'blocks'|'any'   by: latest acceptable finish (relative) or None"""
    Tsel = case['T']
    Teff = case['default_T'] if Tsel == -1 else Tsel
    tm, te = case['tm'], case['te']
    entry = case['entry']
    first_data = min([a['t'] for a in case['actions'] if a['op'] == 'write' and a['data']] or [None], default=None) \
        if any(a['op'] == 'write' for a in case['actions']) else None
    if observed is not None:
        # actions pinned to reader calls: when they happened is only known afterwards
        tm, te, first_data = observed
    if entry == 'read_nonblocking':
        tm = first_data
    if case['sched'] == 'hangup-in-wait':
        return {'kind': 'eof', 'at': te}
    if case['sched'] == 'exit-noclose':
        # no data ever: EOF (the death was noticed) and TIMEOUT are both right; what is decided is the deadline
        return {'kind': 'eof-or-timeout', 'at': te}
    if Teff is None:
        if tm is not None and (te is None or tm <= te):
            return {'kind': 'match', 'at': tm}
        if te is not None:
            return {'kind': 'eof', 'at': te}
        return {'kind': 'blocks'}
    if Teff == 0:
        if observed is not None:
            return {'kind': 'any'}          # pinned to calls a few microseconds in: either answer is acceptable
        if tm is not None and tm == 0.0:
            first = [a for a in case['actions'] if a['op'] == 'write' and a['t'] == 0.0][0]
            if entry != 'read_nonblocking' and len(first['data']) > case['size']:
                return {'kind': 'any'}      # one poll reads at most maxread bytes
            return {'kind': 'match', 'at': 0.0}
        if te is not None and te == 0.0:
            return {'kind': 'eof-or-timeout', 'at': 0.0}
        if tm is not None or te is not None or first_data is not None:
            return {'kind': 'any'}          # something arrives a few us in: either answer is acceptable
        return {'kind': 'timeout'}
    band = 1e-3 + 20 * (case.get('delayafterread') or 0)      # reading what arrived takes (slept) time as well
    if tm is not None and abs(tm - Teff) <= band:
        return {'kind': 'any'}
    if te is not None and abs(te - Teff) <= band:
        return {'kind': 'any'}
    if tm is not None and tm < Teff and (te is None or tm <= te):
        return {'kind': 'match', 'at': tm}
    if te is not None and te < Teff:
        return {'kind': 'eof', 'at': te}
    return {'kind': 'timeout'}


def run_entry(sp, case):
    """Perform the call.  Returns ('match'|'data'|'timeout'|'eof'|'true'|'false', value)."""
    entry, T = case['entry'], case['T']
    pat = MATCH.decode('ascii') if case.get('enc') else MATCH
    try:
        if entry == 'expect':
            sp.expect(pat, timeout=T)
        elif entry == 'expect_exact':
            sp.expect_exact(pat, timeout=T)
        elif entry == 'expect_list':
            sp.expect_list([re.compile(pat)], timeout=T)
        elif entry == 'expect_loop':
            sp.expect_loop(searcher_re([re.compile(pat)]), timeout=T)
        elif entry == 'read_nonblocking':
            d = sp.read_nonblocking(case['size'], timeout=T)
            return 'match', d
        elif entry == 'waitnoecho':
            r = sp.waitnoecho(T)
            return ('true' if r else 'false'), r
        return 'match', None
    except TIMEOUT:
        return 'timeout', None
    except EOF:
        return 'eof', None


def check_sim(case, col=None):
    sim = simkernel.Sim(case['kind'], case['actions'], echo=(case['entry'] == 'waitnoecho'))
    Tsel = case['T']
    Teff = case['default_T'] if Tsel == -1 else Tsel
    sp = None
    feats = set()
    try:
        with sim.installed():
            ekw = {'encoding': case['enc']} if case.get('enc') else {}
            sp = simkernel.make_reader(sim, use_poll=case['use_poll'], timeout=case['default_T'], maxread=case['size'], **ekw)
            sp.delayafterread = case.get('delayafterread')      # the sleeps it causes are part of the accounted overhead
            if case['kind'] == 'socket':
                sim.sock_proxy._timeout = case.get('sock_timeout')
            t0 = sim.now
            c0 = sim.ncalls
            l0 = len(sim.log)
            blocked = None
            outcome = val = None
            try:
                with guard('%s(timeout=%r) on %s' % (case['entry'], Tsel, case['kind']), allow=(EOF, TIMEOUT)):
                    outcome, val = run_entry(sp, case)
            except Blocked as b:
                blocked = b
            t1 = sim.now
            n = sim.ncalls - c0
            log = sim.log[l0:]
            el = t1 - t0
            where = '%s(timeout=%r%s) on %s/%s, schedule %s' % (
                case['entry'], Tsel, ' -> %r' % Teff if Tsel == -1 else '', case['kind'],
                'poll' if case['use_poll'] else 'select', case['sched'])
            sleeps = sum(d for (_, nm, d) in log if nm == 'sleep' and d)
            slack = n * TICK + 1e-7
            if case['entry'] == 'waitnoecho':
                check_waitnoecho(case, Teff, outcome, blocked, el, slack, where)
            else:
                observed = None
                if case.get('call_indexed'):
                    rel0 = t0 - sim.t0
                    wr = [(t - rel0, d) for (t, nm, d) in log if nm == 'peer:write']
                    tm_o = min([t for (t, d) in wr if d == len(MATCH)] or [None], default=None) if any(d == len(MATCH) for (_, d) in wr) else None
                    fd_o = min([t for (t, d) in wr if d] or [None], default=None) if any(d for (_, d) in wr) else None
                    ends = [t - rel0 for (t, nm, d) in log if nm in ('peer:exit', 'peer:close')]
                    te_o = max(ends) if len(ends) >= (2 if case['kind'] == 'pty' else 1) else None
                    observed = (tm_o, te_o, fd_o)
                exp = expected(case, observed)
                if blocked is not None:
                    if exp['kind'] != 'blocks':
                        raise Violation('blocks', '%s: the call never returns (%s); expected %s' % (where, blocked, exp['kind']))
                else:
                    if exp['kind'] == 'blocks':
                        raise Violation('none-timeout-returned', '%s: returned %s at +%.6f although nothing arrives and there is no deadline'
                                        % (where, outcome, el))
                    # (a) overall bound
                    if Teff is not None and el > Teff + slack + sleeps:
                        raise Violation('deadline-overrun', '%s: took %.6f s virtual, bound %.6f + %d calls x 1us'
                                        % (where, el, Teff, n))
                    # (d)
                    if Teff is None and outcome == 'timeout':
                        raise Violation('none-timeout-timed-out', '%s: TIMEOUT with timeout=None' % where)
                    # (b) never early
                    if outcome == 'timeout' and Teff is not None and el < Teff - 1e-9 and not sim.peer_closed:
                        raise Violation('early-timeout', '%s: TIMEOUT after %.6f s, before the %.6f s deadline' % (where, el, Teff))
                    # (c)/(e) outcome
                    k = exp['kind']
                    if k == 'match' and outcome != 'match':
                        raise Violation('missed-before-deadline', '%s: %s, although matching data arrives at +%.6f (deadline %r)'
                                        % (where, outcome, exp['at'], Teff))
                    if k == 'timeout' and outcome != 'timeout':
                        raise Violation('outcome-after-deadline', '%s: %s at +%.6f, expected TIMEOUT at %r' % (where, outcome, el, Teff))
                    if k == 'eof' and outcome != 'eof':
                        raise Violation('eof-missed', '%s: %s, although the peer exits/closes at +%.6f' % (where, outcome, exp['at']))
                    if k == 'eof-or-timeout' and outcome not in ('eof', 'timeout'):
                        raise Violation('outcome-after-deadline', '%s: %s, expected EOF or TIMEOUT' % (where, outcome))
                    if k == 'match' and exp['at'] is not None and el > exp['at'] + slack + sleeps + 1e-9 and Teff is None:
                        raise Violation('late-return', '%s: data arrived at +%.6f, the call returned at +%.6f' % (where, exp['at'], el))
                    # (g) size
                    if case['entry'] == 'read_nonblocking' and outcome == 'match' and len(val) > case['size']:
                        raise Violation('read-larger-than-size', '%s returned %d bytes for size %d' % (where, len(val), case['size']))
                # (f) timeouts handed down never exceed the remaining time
                if Teff is not None and not sim.uninterposed:
                    for (t, nm, d) in log:
                        if nm in ('select', 'poll') and d is not None:
                            if (t - (t0 - sim.t0)) + d > Teff + slack + sleeps:
                                raise Violation('wait-longer-than-remaining', '%s: %s(timeout=%.6f) issued at +%.6f with deadline %.6f'
                                                % (where, nm, d, t - (t0 - sim.t0), Teff))
                        if nm == 'recv' and d is not None and d[1] is not None:
                            if (t - (t0 - sim.t0)) + d[1] > Teff + slack + sleeps:
                                raise Violation('wait-longer-than-remaining', '%s: recv under socket timeout %.6f issued at +%.6f with deadline %.6f'
                                                % (where, d[1], t - (t0 - sim.t0), Teff))
                    if any(nm == 'select' and d is None for (_, nm, d) in log) or any(nm == 'poll' and d is None for (_, nm, d) in log):
                        raise Violation('wait-longer-than-remaining', '%s: an unbounded select/poll was issued under a deadline' % where)
            reads = sum(1 for (_, nm, _) in log if nm in ('read', 'recv'))
            if reads >= 3:
                feats.add('>=3-reads')
            names = [nm for (_, nm, _) in log]
            for i in range(1, len(names)):
                if names[i].startswith('peer:') and names[i - 1] in ('select', 'poll', 'recv', 'sleep'):
                    feats.add('action-inside-wait')
            if 'EINTR' in names:
                feats.add('eintr')
            if Tsel in (None, 0, -1):
                feats.add('T=%r' % Tsel)
    finally:
        if sp is not None:
            simkernel.dispose_reader(sim, sp)
        sim.cleanup()
    if col is not None:
        for f in feats:
            col.label(f)
        col.label('entry=' + case['entry'])
        col.label('transport=' + case['kind'])
        col.label('sched=' + case['sched'])
        col.case(case, bool(feats))


def check_waitnoecho(case, Teff, outcome, blocked, el, slack, where):
    eo = case['echo_off']
    poll = 0.1
    if Teff is None:
        if eo is None:
            if blocked is None:
                raise Violation('waitnoecho', '%s: returned %s although ECHO never goes off and there is no deadline' % (where, outcome))
            return
        if blocked is not None:
            raise Violation('waitnoecho', '%s: blocks although ECHO goes off at +%.3f' % (where, eo))
        if outcome != 'true' or el > eo + poll + slack + 1e-9:
            raise Violation('waitnoecho', '%s: %s at +%.6f; ECHO went off at +%.3f' % (where, outcome, el, eo))
        return
    if blocked is not None:
        raise Violation('waitnoecho', '%s: never returns (%s)' % (where, blocked))
    if el > max(Teff, 0) + 2 * poll + slack + 1e-9:
        raise Violation('deadline-overrun', '%s: took %.6f s, bound %.3f + one poll' % (where, el, Teff))
    if eo is not None and eo <= max(Teff, 0) - poll - 1e-3:
        if outcome != 'true':
            raise Violation('waitnoecho', '%s: False although ECHO went off at +%.3f (deadline %.3f)' % (where, eo, Teff))
        if el > eo + poll + slack + 1e-9:
            raise Violation('waitnoecho', '%s: True only at +%.6f; ECHO went off at +%.3f' % (where, el, eo))
    elif eo is None or eo > Teff + 2 * poll + 1e-3:
        if outcome != 'false':
            raise Violation('waitnoecho', '%s: True although ECHO stays on until the deadline' % where)
        if el < Teff - 1e-9:
            raise Violation('early-timeout', '%s: False after %.6f s, before the %.3f s deadline' % (where, el, Teff))


# ---------------------------------------------------------------------------
# part B: wall clock, real children

@st.composite
def real_cases(draw):
    return {'kind': draw(st.sampled_from(['pty', 'popen', 'popen'])),
            'entry': draw(st.sampled_from(['expect', 'expect_exact'])),
            'sched': draw(st.sampled_from(['silence', 'trickle', 'match-early', 'poll-pending'])),
            'T': 0.3}


def check_real(case, col=None):
    T = case['T']
    acts = []
    if case['sched'] == 'trickle':
        for _ in range(60):
            acts += [['w', b'x'.hex()], ['s', 0.05]]
    elif case['sched'] == 'match-early':
        acts += [['s', 0.05], ['w', (b'ab' + MATCH).hex()]]
    elif case['sched'] == 'poll-pending':
        acts += [['s', 0.1], ['w', (b'ab' + MATCH).hex()]]
    acts.append(['hang'])
    if case['kind'] == 'pty':
        child, ps = peers.pty_peer(acts, raw=True, record=False, timeout=30)
    else:
        child, ps = peers.popen_peer(acts, record=False, timeout=30)
    try:
        if case['sched'] == 'poll-pending':
            time.sleep(0.3)       # the data is sitting in the pipe / queue
            Tcall = 0
        else:
            Tcall = T
        t0 = time.time()
        outcome = 'match'
        try:
            with guard('%s on real %s' % (case['entry'], case['kind']), allow=(EOF, TIMEOUT)):
                if case['entry'] == 'expect':
                    child.expect(MATCH, timeout=Tcall)
                else:
                    child.expect_exact(MATCH, timeout=Tcall)
        except TIMEOUT:
            outcome = 'timeout'
        except EOF:
            outcome = 'eof'
        el = time.time() - t0
        where = '%s(timeout=%r) on a real %s child, schedule %s' % (case['entry'], Tcall, case['kind'], case['sched'])
        if case['sched'] in ('silence', 'trickle'):
            if outcome != 'timeout':
                raise Violation('real-outcome', '%s: %s, expected TIMEOUT' % (where, outcome))
            if el < T - 0.002:
                raise Violation('early-timeout', '%s: TIMEOUT after %.3f s wall' % (where, el))
            if el > T + 2.0:
                raise Violation('deadline-overrun', '%s: took %.3f s wall for a %.1f s timeout' % (where, el, T))
        elif case['sched'] == 'match-early':
            if outcome != 'match':
                raise Violation('missed-before-deadline', '%s: %s although the match is written after 50 ms' % (where, outcome))
        else:
            if outcome != 'match':
                raise Violation('poll-ignores-readable-data', '%s: %s although the matching data had been written 0.3 s earlier'
                                % (where, outcome))
    finally:
        if case['kind'] == 'pty':
            peers.reap(child)
        else:
            peers.reap_popen(child)
        ps.cleanup()
    if col is not None:
        col.label('real=' + case['kind'] + '/' + case['sched'])
        col.case(case, True)


def sweep_cases(part, parts):
    """Exhaustive: a short peer script ([noise, MATCH] or [noise, MATCH, exit+close]) pinned to every pair/triple
    of the reader's first 10 interposed calls, x entry points x transports x T in {0.25, 0} x select|poll."""
    import itertools
    n = 0
    for kind in ('pty', 'pipe', 'socket'):
        for entry in ('expect', 'expect_exact', 'read_nonblocking'):
            for T in (0.25, 0):
                for with_end in (False, True):
                    for idxs in itertools.combinations_with_replacement(range(1, 11), 3 if with_end else 2):
                        for use_poll in (False, True):
                            n += 1
                            if n % parts != part:
                                continue
                            acts = [{'at_call': idxs[0], 't': 0.0, 'op': 'write', 'data': b'xx'},
                                    {'at_call': idxs[1], 't': 0.0, 'op': 'write', 'data': MATCH}]
                            if with_end:
                                if kind == 'pty':
                                    acts.append({'at_call': idxs[2], 't': 0.0, 'op': 'exit', 'status': 0})
                                acts.append({'at_call': idxs[2], 't': 0.0, 'op': 'close'})
                            yield {'kind': kind, 'entry': entry, 'T': T, 'default_T': 3.0, 'sched': 'pinned-to-calls', 'actions': acts,
                                   'tm': None, 'te': None, 'echo_off': None, 'use_poll': use_poll, 'size': 2000, 'call_indexed': True}


def run_sweep(spec, col, deadline_ts):
    n = 0
    for case in sweep_cases(spec['part'], spec['parts']):
        if deadline_ts and (n & 255) == 0 and time.time() > deadline_ts:
            col.inconclusive = True
            col.count('exhaustive_cases_partial', n)
            return
        n += 1
        try:
            check_sim(case, col)
        except Violation as v:
            col.fail(v.key, v.what, case)
            if len(col.failures) >= 4:
                return
    col.count('exhaustive_cases', n)


EXHAUSTIVE_NOTE = ('a peer script [noise, MATCH(, exit+close)] pinned to every combination of the reader\'s first 10 interposed '
                   'calls x {expect, expect_exact, read_nonblocking} x {pty, pipe, socket} x T in {0.25, 0} x select|poll')


def run_shard(spec, seed, idx, deadline_ts):
    col = Collector()
    if spec['kind'] == 'sweep':
        run_sweep(spec, col, deadline_ts)
        return col
    if spec['kind'] == 'sim':
        def body(case, c):
            with case_watchdog(120, 'C05 sim case'):
                check_sim(case, c)
        run_batches(body, sim_cases(), spec['n'], seed * 1000 + idx, col, batch=600, deadline_ts=deadline_ts)
    else:
        def body(case, c):
            with case_watchdog(120, 'C05 real child'):
                check_real(case, c)
        run_batches(body, real_cases(), spec['n'], seed * 1000 + idx, col, batch=20, shrink=False, deadline_ts=deadline_ts)
    return col


def replay(case, spec=None):
    if 'actions' in case:
        check_sim(case)
    else:
        check_real(case)


# ---------------------------------------------------------------------------
# deterministic probes

def _probe_hangup_alive():
    """The child closes its terminal at +0.1 s and stays alive: expect(timeout=1)
    must still finish by the deadline."""
    for te in (None, 5.0):
        # the hang-up is already there when the call starts: the first poll finds the
        # descriptor readable, the read fails with EIO and the liveness check blocks
        acts = [{'t': 0.0, 'op': 'close'}]
        if te is not None:
            acts.append({'t': te, 'op': 'exit', 'status': 0})
        case = {'kind': 'pty', 'entry': 'expect', 'T': 1.0, 'default_T': 3.0, 'sched': 'hangup-alive', 'actions': acts,
                'tm': None, 'te': None, 'echo_off': None, 'use_poll': False, 'size': 2000}
        sim = simkernel.Sim('pty', acts)
        sp = None
        try:
            with sim.installed():
                sp = simkernel.make_reader(sim, timeout=3.0)
                sp.delayafterread = None
                t0 = sim.now
                try:
                    run_entry(sp, case)
                except Blocked as b:
                    raise Violation('deadline-overrun', 'child has hung up and stays alive: expect(timeout=1) %s' % b)
                el = sim.now - t0
                if el > 1.0 + 1e-3:
                    raise Violation('deadline-overrun', 'child has hung up and exits at +%.1f s: expect(timeout=1) took %.3f s'
                                    % (te, el))
        finally:
            if sp is not None:
                simkernel.dispose_reader(sim, sp)
            sim.cleanup()


def _probe_waitnoecho_none():
    case = {'kind': 'pty', 'entry': 'waitnoecho', 'T': None, 'default_T': 3.0, 'sched': 'silence',
            'actions': [{'t': 0.35, 'op': 'echo', 'on': False}], 'tm': None, 'te': None, 'echo_off': 0.35,
            'use_poll': False, 'size': 2000}
    check_sim(case)


def _probe_socket_poll():
    case = {'kind': 'socket', 'entry': 'expect', 'T': 0, 'default_T': 3.0, 'sched': 'silence', 'actions': [],
            'tm': None, 'te': None, 'echo_off': None, 'use_poll': False, 'size': 2000}
    check_sim(case)
    check_sim(dict(case, entry='read_nonblocking'))


def _probe_expect_loop_default():
    case = {'kind': 'pipe', 'entry': 'expect_loop', 'T': -1, 'default_T': 3.0, 'sched': 'match',
            'actions': [{'t': 1.0, 'op': 'write', 'data': MATCH}], 'tm': 1.0, 'te': None, 'echo_off': None,
            'use_poll': False, 'size': 2000}
    check_sim(case)


def _probe_popen_poll():
    check_real({'kind': 'popen', 'entry': 'expect', 'sched': 'poll-pending', 'T': 0.3})


def _probe_popen_poll_heldback():
    """timeout=0 on a piped child examines what has been received also when the previous read left text behind:
    the child writes HEAD + 1100 x + MARK + 1000 y at once; read_nonblocking(1000) takes the first queue chunk and
    holds 24 characters back; everything else is queued; expect('MARK', timeout=0) must find MARK."""
    import tempfile
    from pexpect.popen_spawn import PopenSpawn
    fd, path = tempfile.mkstemp(prefix='c05_')
    os.write(fd, b'HEAD' + b'x' * 1100 + b'MARK' + b'y' * 1000)
    os.close(fd)
    sp = PopenSpawn(['/bin/cat', path], maxread=1000, timeout=5)
    try:
        time.sleep(0.3)
        first = sp.read_nonblocking(1000, 2)
        if len(first) != 1000:
            return          # the reader thread cut the output differently: the scenario did not happen
        try:
            sp.expect_exact(b'MARK', timeout=0)
        except TIMEOUT:
            raise Violation('poll-ignores-received-data', "PopenSpawn: expect('MARK', timeout=0) reported TIMEOUT although MARK had been "
                            'received (24 characters held back by the previous read, the rest queued)')
        except EOF:
            raise Violation('poll-ignores-received-data', "PopenSpawn: expect('MARK', timeout=0) reported EOF before MARK")
    finally:
        try:
            sp.proc.wait()
            sp.proc.stdout.close()
            sp.proc.stdin.close()
        except Exception:
            pass
        os.unlink(path)


PROBES = [
    ('probe:popen-timeout-0-heldback', 'PopenSpawn with timeout 0 looks at the queue also when text was held back by the previous read',
     _probe_popen_poll_heldback),
    ('probe:hangup-alive', 'a child that closes its terminal while staying alive makes expect() overrun its timeout '
                           '(blocking waitpid in the liveness check)', _probe_hangup_alive),
    ('probe:waitnoecho-none', 'waitnoecho(None) raises TypeError instead of waiting for the toggle', _probe_waitnoecho_none),
    ('probe:socket-timeout-0', 'SocketSpawn with timeout 0 raises BlockingIOError instead of TIMEOUT', _probe_socket_poll),
    ('probe:expect_loop-default', 'expect_loop(searcher) does not map timeout=-1 to the instance default', _probe_expect_loop_default),
    ('probe:popen-timeout-0', 'PopenSpawn with timeout 0 never looks at data already received', _probe_popen_poll),
]
