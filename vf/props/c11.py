"""C11 Logging fidelity: the log files are an exact transcript.

The history runner of C08 (send-family operations interleaved with reads of
scripted peer output, serialised by the harness, on pty / fdspawn /
SocketSpawn / PopenSpawn, bytes and unicode mode) is run with recording log
objects in every combination of {logfile, logfile_read, logfile_send}.
Oracle:
  logfile_read  == exactly the text delivered from the child, once, in order;
  logfile_send  == exactly the (coerced) arguments of the send family, control
                   characters included (decoded in unicode mode);
  logfile       == both, merged in the order the operations happened;
  every write is followed by a flush before the next write;
  every payload has the string type of the mode (bytes / str).
The interact() path is covered by the C15 harness (vf/props/c15.py), which
reports logging failures under this property's keys when run from here.
"""
from hypothesis import strategies as st

from ..common import Violation, Collector, run_batches, case_watchdog
from . import c08

PROPERTY = 'C11'
RULE = ('Hypothesis-generated histories (as C08, with at least one read and one send where possible) x all 8 subsets '
        'of {logfile, logfile_read, logfile_send} x bytes|unicode x {pty, fd, socket, popen}, plus interact() sessions '
        'with log files attached, plus ascii/latin-1 objects on all four transports asked to send text the codec cannot encode or to write into a closed pipe (the request is logged all the same), plus finished children drained in small reads (a quarter of the unicode ones stop inside a character); recording log objects compared with the model transcript.  Non-trivial: >= 2 reads '
        'and >= 2 sends interleaved with >= 2 logs set, or an interact() session with a log attached.  Distinct by '
        'hash of the case.')
ASSUMPTIONS = [
    'the harness serialises operations, so the merge order of logfile is known',
    'a sendcontrol() with an invalid name writes an empty string to the logs (no effect on the transcript)',
]
BUDGET = {'quick': 240, 'thorough': 1500}


def shards(tier):
    q = tier == 'quick'
    out = [{'kind': 'hist', 'n': 300 if q else 2500} for _ in range(12)]
    out += [{'kind': 'interact', 'n': 30 if q else 300} for _ in range(4)]
    out += [{'kind': 'drain', 'n': 100 if q else 800} for _ in range(2)]
    out += [{'kind': 'failsend', 'n': 150 if q else 1500} for _ in range(2)]
    return out


def check_logs(case, res):
    mo = res['model']
    T = str if mo.text_mode else bytes
    want = {'logfile_read': mo.log_read, 'logfile_send': mo.log_send, 'logfile': mo.log_all}
    for name, (writes, flushed) in res['logs'].items():
        for w in writes:
            if not isinstance(w, T):
                raise Violation('log-type:' + name, '%s received %r in %s mode (%s transport)' % (name, type(w), T.__name__, case['transport']))
        got = T().join(writes)
        exp = T().join(want[name])
        if got != exp:
            k = 0
            while k < min(len(got), len(exp)) and got[k] == exp[k]:
                k += 1
            raise Violation('log-differs:' + name, '%s on %s (%s): transcript differs at offset %d: logged %r, expected %r'
                            % (name, case['transport'], case['enc'] or 'bytes', k, got[max(0, k - 5):k + 15], exp[max(0, k - 5):k + 15]))
        if not all(flushed):
            raise Violation('log-not-flushed:' + name, '%s: write %d of %d was not followed by a flush'
                            % (name, flushed.index(False), len(flushed)))


def check_case(case, col=None):
    res = c08.run_history(case, logs=case.get('logs') or [])
    check_logs(case, res)
    nreads = sum(1 for op in case['ops'] if op[0] == 'read')
    nsends = sum(1 for op in case['ops'] if op[0] not in ('read', 'poll'))
    nt = nreads >= 2 and nsends >= 2 and len(case.get('logs') or []) >= 2
    if col is not None:
        col.label('transport=' + case['transport'])
        col.label('logs=' + '+'.join(case.get('logs') or ['none']))
        col.case(case, nt)


@st.composite
def drain_cases(draw):
    return {'transport': draw(st.sampled_from(['popen', 'popen', 'pty'])), 'text_mode': draw(st.booleans()),
            'size': draw(st.sampled_from([0, 1, 7, 300, 1500, 3000])), 'maxread': draw(st.sampled_from([1, 3, 7, 100, 2000])),
            'wait': draw(st.booleans()), 'style': draw(st.sampled_from(['expect_eof', 'rnb', 'read'])),
            'logs': sorted(draw(st.sets(st.sampled_from(['logfile', 'logfile_read']), min_size=1, max_size=2))),
            # the output stops inside a multi-byte character (unicode mode, lenient error handlers): whatever the
            # decoder makes of the rest at the end of the stream, delivered text and logged text stay the same thing
            'tail': draw(st.sampled_from([None, None, 'replace', 'ignore']))}


def check_drain(case, col=None):
    """The child writes its output and exits; the reader drains it afterwards in small reads.  Everything
    delivered must be in the read logs, also what is handed out after the end of the stream was seen."""
    import time
    from ..engines import peers
    from pexpect.exceptions import EOF, TIMEOUT
    from ..common import guard
    text_mode = case['text_mode']
    body = ('l\xe9-' * (case['size'] // 3 + 1))[:case['size']] if text_mode else 'abc-' * (case['size'] // 4 + 1)
    body = body[:case['size']]
    data = body.encode('utf-8')
    tail = case.get('tail') if text_mode else None
    if tail:
        data += b'\xe2\x82'
    actions = ([['w', data.hex()]] if data else []) + [['exit', 0]]
    kw = {'maxread': case['maxread'], 'timeout': 20}
    if text_mode:
        kw['encoding'] = 'utf-8'
    if tail:
        kw['codec_errors'] = tail
    if case['transport'] == 'popen':
        child, ps = peers.popen_peer(actions, record=False, wait_ready=False, **kw)
    else:
        child, ps = peers.pty_peer(actions, raw=True, record=False, wait_ready=False, **kw)
    T = str if text_mode else bytes
    logs = {}
    try:
        for name in case['logs']:
            logs[name] = peers.RecLog()
            setattr(child, name, logs[name])
        if case['wait']:
            time.sleep(0.08)          # the whole output and the end-of-stream marker are already queued
        got = T()
        where = 'draining a finished %s child (%s, maxread %d)' % (case['transport'], case['style'], case['maxread'])
        try:
            with guard(where, allow=(EOF, TIMEOUT)):
                if case['style'] == 'expect_eof':
                    child.expect(EOF)
                    got = child.before
                elif case['style'] == 'read':
                    got = child.read()
                else:
                    while True:
                        got += child.read_nonblocking(case['maxread'], 20)
        except EOF:
            pass
        except TIMEOUT:
            raise Violation('drain-timeout', '%s: TIMEOUT' % where)
        want = body if text_mode else data
        if tail and got.startswith(want) and got[len(want):] in ('', '\ufffd'):
            pass
        elif got != want:
            raise Violation('drain-content', '%s: delivered %d characters, the child wrote %d' % (where, len(got), len(want)))
        for name, lg in logs.items():
            joined = lg.joined(T())
            if joined != got:
                raise Violation('log-differs:' + name, '%s: %s holds %d characters, %d were delivered (first difference at %d)'
                                % (where, name, len(joined), len(got),
                                   next((i for i in range(min(len(joined), len(got))) if joined[i] != got[i]), min(len(joined), len(got)))))
            if not all(lg.flushed):
                raise Violation('log-not-flushed:' + name, '%s: a write to %s was not flushed' % (where, name))
    finally:
        if case['transport'] == 'popen':
            peers.reap_popen(child)
        else:
            peers.reap(child)
        ps.cleanup()
    if col is not None:
        col.label('drain-after-exit:' + case['transport'])
        if tail:
            col.label('drain-ends-inside-a-character')
        col.case(case, case['size'] > case['maxread'])


@st.composite
def failsend_cases(draw):
    enc = draw(st.sampled_from(['ascii', 'latin-1']))
    bad = '\xe9' if enc == 'ascii' else '\u20ac'
    words = ['ok', 'a b', '', 'x' + bad, bad, 'tail' + bad + 'z', '\x03']
    return {'transport': draw(st.sampled_from(['fd', 'socket', 'popen', 'pty'])), 'enc': enc,
            'sends': draw(st.lists(st.tuples(st.sampled_from(['send', 'sendline', 'write', 'writelines']), st.sampled_from(words)),
                                   min_size=1, max_size=5)),
            # fd only: the reading end is closed before send number k (every later write fails with EPIPE)
            'broken_at': draw(st.sampled_from([None, None, 0, 1, 2])),
            'logs': sorted(draw(st.sets(st.sampled_from(['logfile', 'logfile_send']), min_size=1, max_size=2)))}


def check_failsend(case, col=None):
    """A request that cannot be delivered (text the codec cannot encode; a peer that has gone) is still a request:
    the send logs hold what the send family was asked to send, in order, whether or not the write succeeded."""
    import os
    import socket
    from ..engines import peers
    from ..common import guard
    tr = case['transport']
    kw = {'encoding': case['enc'], 'timeout': 10}
    cleanup = []
    if tr == 'fd':
        from pexpect import fdpexpect
        r, w = os.pipe()
        child = fdpexpect.fdspawn(w, **kw)
        cleanup += [lambda: os.close(w)]
        r_open = [True]
    elif tr == 'socket':
        from pexpect import socket_pexpect
        a, b = socket.socketpair()
        child = socket_pexpect.SocketSpawn(a, **kw)
        cleanup += [a.close, b.close]
    elif tr == 'popen':
        from pexpect.popen_spawn import PopenSpawn
        child = PopenSpawn(['/bin/cat'], **kw)
        cleanup += [lambda: peers.reap_popen(child)]
    else:
        import pexpect
        child = pexpect.spawn('/bin/cat', echo=False, **kw)
        child.delaybeforesend = None
        cleanup += [lambda: peers.reap(child)]
    logs = {}
    want = ''
    failed = 0
    try:
        for name in case['logs']:
            logs[name] = peers.RecLog()
            setattr(child, name, logs[name])
        for k, (op, text) in enumerate(case['sends']):
            if tr == 'fd' and case['broken_at'] == k and r_open[0]:
                os.close(r)
                r_open[0] = False
            before_req = want
            want += text + (child.linesep if op == 'sendline' else '')
            where = '%s(%r) on %s (%s)' % (op, text, tr, case['enc'])
            try:
                with guard(where, allow=(UnicodeEncodeError, OSError)):
                    if op == 'writelines':
                        child.writelines([text])
                    else:
                        getattr(child, op)(text)
                this_failed = False
            except (UnicodeEncodeError, OSError):
                failed += 1
                this_failed = True
            for name, lg in logs.items():
                got = lg.joined('')
                if this_failed and op == 'sendline' and got == before_req + text:
                    # a transport may send the text and the line separator as two requests: the second one is never
                    # made when the first one fails
                    want = got
                if got != want:
                    raise Violation('log-differs:' + name, 'after %s (%d request(s) failed so far): %s holds %r, the send family was asked to send %r'
                                    % (where, failed, name, got[-40:], want[-40:]))
        if tr == 'fd' and r_open[0]:
            os.close(r)
    finally:
        for f in cleanup:
            try:
                f()
            except OSError:
                pass
    if col is not None:
        if failed:
            col.label('failed-send:' + tr)
        col.case(case, failed >= 1 and len(case['sends']) >= 2)


def run_shard(spec, seed, idx, deadline_ts):
    col = Collector()
    if spec['kind'] == 'failsend':
        def fbody(case, c):
            with case_watchdog(60, 'C11 failing sends'):
                check_failsend(case, c)
        run_batches(fbody, failsend_cases(), spec['n'], seed * 1000 + idx, col, batch=50, shrink=False, deadline_ts=deadline_ts)
        return col
    if spec['kind'] == 'drain':
        def dbody(case, c):
            with case_watchdog(120, 'C11 drain'):
                check_drain(case, c)
        run_batches(dbody, drain_cases(), spec['n'], seed * 1000 + idx, col, batch=50, shrink=False, deadline_ts=deadline_ts)
        return col
    if spec['kind'] == 'interact':
        try:
            from . import c15
        except ImportError:
            col.notes.append('interact() logging sub-tier not available')
            return col
        return c15.run_logging_shard(spec, seed, idx, deadline_ts)

    def body(case, c):
        with case_watchdog(150, 'C11 history'):
            check_case(case, c)
    run_batches(body, c08.histories(big=False, want_logs=True), spec['n'], seed * 1000 + idx, col, batch=40, deadline_ts=deadline_ts)
    return col


def replay(case, spec=None):
    if spec and spec.get('kind') == 'drain':
        return check_drain(case)
    if (spec and spec.get('kind') == 'failsend') or 'sends' in case:
        return check_failsend(case)
    if spec and spec.get('kind') == 'interact':
        from . import c15
        return c15.replay_logging(case)
    check_case(case)


PROBES = []
