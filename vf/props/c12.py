"""C12 run(): complete output, each event answered once, true exit status.

A scripted child (peers/rawpeer.py, cooked tty, echo off) plays a generated
dialogue: print text / payload (0..200 KB), print a prompt token and read one
line (recorded), sleep (so that a TIMEOUT fires), exit with a code.  run() is
called with a generated event table (dict or list; string, function or bound
method responses returning None / a string / True; EOF and TIMEOUT as keys).

Oracle: the returned output == everything the child printed up to the stop
point (EOF, timeout, or a callback returning true), each piece exactly once,
whatever events fired in between; withexitstatus gives the scripted code; the
child's record of received lines == the model's responses for the token
occurrences in stream order; every occurrence triggers exactly one callback
call, with a dict holding child / event_count (0,1,2,...) / extra_args.
"""
import os
import re
import time

from hypothesis import strategies as st

from ..common import Violation, Collector, run_batches, guard, case_watchdog
from ..engines import peers

import pexpect
from pexpect.exceptions import EOF, TIMEOUT

PROPERTY = 'C12'
RULE = ('Hypothesis-generated child dialogues (1-7 steps: text, text arriving in two pieces cut inside a character, payload up to 200 KB, prompt+read, sleep) x event tables '
        '(dict|list, a third of the lists with a later second entry for every pattern; string|function|method responses; callbacks returning None|string|True; EOF/TIMEOUT keys) x '
        'bytes|utf-8 x withexitstatus x searchwindowsize {unset, 4000} passed through **kwargs, on real children.  Non-trivial: >= 2 events fired, or a TIMEOUT event fired '
        'mid-stream, or more than maxread (2000) bytes of output between two events.  Distinct by hash of the case.')
ASSUMPTIONS = [
    'prompt tokens are prefix-free and never occur in the payload text, so the stream order of occurrences is known',
    'timeouts are wall clock: dialogues without a sleep use timeout 5 s (a loaded machine must not fake a TIMEOUT); '
    'dialogues with a sleep use timeout 0.6 s against sleeps of 1.5 s',
    'an EOF event callback always returns true (run() would call a non-stopping one forever: unspecified)',
    'echo=False is passed through run(**kwargs) so that the expected output is what the child printed with \\n -> \\r\\n',
]
BUDGET = {'quick': 280, 'thorough': 1500}
PROBE_TIMEOUT = 60

TOKENS = ['NAME?', 'PASS:', 'Q3>']     # prompts the child waits on
SAY = 'OK#'                            # printed without reading: its event never sends anything
TEXT = ['alpha', 'beta', ' ', 'line\n', 'x', 'yz\n', '...']


def shards(tier):
    q = tier == 'quick'
    return [{'kind': 'run', 'n': 50 if q else 400} for _ in range(16)] + [{'kind': 'delayed', 'n': 60 if q else 1500} for _ in range(4)]


@st.composite
def cases(draw):
    text_mode = draw(st.booleans())
    steps = []
    n = draw(st.integers(2, 8))
    slow = draw(st.integers(0, 2)) == 0
    for _ in range(n):
        k = draw(st.integers(0, 9))
        if k <= 3:
            steps.append(['print', ''.join(draw(st.lists(st.sampled_from(TEXT), min_size=1, max_size=5)))])
        elif k == 4:
            steps.append(['print', ('abcdefghij' * 410 + '\n') * draw(st.sampled_from([1, 5, 48]))])
        elif k <= 7:
            st_ = ['ask', draw(st.sampled_from(TOKENS))]
            if slow and draw(st.integers(0, 2)) == 0:
                st_.append('split')       # the prompt arrives in two pieces with a pause longer than the timeout between them
            steps.append(st_)
        elif k == 8:
            steps.append(['say', SAY])
        elif slow:
            steps.append(['sleep'])
        else:
            # 'cut': the bytes of this text reach the reader in two pieces, the first ending inside a character
            steps.append(['print', 'r\xe9sum\xe9 \u2581\u2582\u2583 \xe9\n', 'cut'] if text_mode and draw(st.booleans())
                         else ['print', 'é\n' if text_mode else 'e\n'])
    codec_errors = draw(st.sampled_from([None, None, 'replace', 'ignore'])) if text_mode else None
    if codec_errors:
        # output that is not valid UTF-8, under an error handler passed through run(**kwargs)
        steps.insert(draw(st.integers(0, len(steps))), ['print-raw', 'na\xefve caf\xe9\n'])
    events = {}
    for t in TOKENS:
        k = draw(st.sampled_from([0, 1, 1, 1, 2, 3, 3, 4, 4, 5]))
        if k == 0:
            continue
        events[t] = {1: ['str', 'alice'], 2: ['func', 'none'], 3: ['func', 'str:bob'], 4: ['method', 'str:carol'],
                     5: ['func', 'stop']}[k]
    k = draw(st.integers(0, 3))
    if k:
        events[SAY] = {1: ['func', 'none'], 2: ['method', 'none'], 3: ['func', 'stop']}[k]
    if draw(st.integers(0, 3)) == 0:
        events['EOF'] = ['func', 'stop']        # an EOF callback that does not stop would be called forever
    if slow and draw(st.booleans()):
        events['TIMEOUT'] = ['func', draw(st.sampled_from(['none', 'none', 'stop']))]
    order = draw(st.permutations(sorted(events)))
    return {'text_mode': text_mode, 'steps': steps, 'events': events, 'order': list(order),
            'as_list': draw(st.booleans()), 'dup': draw(st.integers(0, 2)) == 0, 'exit': draw(st.sampled_from([0, 0, 3, 77])),
            'withexit': draw(st.booleans()), 'slow': slow, 'extra': draw(st.sampled_from([None, 'xa', 7])),
            'default_timeout': draw(st.integers(0, 3)) == 0,
            # passed through run(**kwargs): a search window larger than any read plus any prompt changes nothing
            # about which events fire, and must change nothing about the output that is returned
            'sws': draw(st.sampled_from([None, None, 4000])),
            # overlapping patterns: ahead of every event a second one is listed whose pattern matches an inner part of
            # the same prompt (it starts later, ends earlier and, through a look-ahead, becomes matchable at the same
            # moment): the match that starts first in the stream wins, so these must never fire
            'shadow': draw(st.booleans()), 'codec_errors': codec_errors,
            'use_poll': draw(st.booleans()),
            # bytes mode: the responses are given as ordinary str (accepted and encoded by pexpect); a log file of the
            # mode's type (BytesIO / StringIO) is passed to run()
            'str_resp': draw(st.booleans()), 'logfile': draw(st.booleans())}


class Responder(object):
    def __init__(self, log, what, name):
        self.log, self.what, self.name = log, what, name

    def method(self, d):
        return respond(self.log, self.what, self.name, d)


def respond(log, what, name, d):
    log.append({'event': name, 'has_child': isinstance(d.get('child'), pexpect.spawn),
                'event_count': d.get('event_count'), 'extra_args': d.get('extra_args'),
                'is_dict': isinstance(d, dict)})
    if what == 'none':
        return None
    if what == 'stop':
        return True
    return what[4:] + '\n'


def check_case(case, col=None):
    text_mode = case['text_mode']
    T = 0.6 if case['slow'] else (-1 if case.get('default_timeout') else 5.0)       # -1: run()'s "use the default" (30 s)
    conv = (lambda s: s) if text_mode else (lambda s: s.encode('utf-8'))
    # ---- the child script and the model, step by step
    actions = []
    printed = ''                  # what the child prints (child side, before tty \n -> \r\n)
    for s in case['steps']:
        if s[0] == 'print' and len(s) > 2:
            raw = s[1].encode('utf-8')
            conts = [j for j in range(len(raw)) if raw[j] & 0xC0 == 0x80]
            k2 = conts[(len(s[1]) * 7) % len(conts)]
            actions.append(['w', raw[:k2].hex()])
            actions.append(['s', 0.03])
            actions.append(['w', raw[k2:].hex()])
        elif s[0] == 'print':
            actions.append(['w', s[1].encode('utf-8').hex()])
        elif s[0] == 'print-raw':
            actions.append(['w', s[1].encode('latin-1').hex()])
        elif s[0] == 'ask':
            if len(s) > 2 and 'TIMEOUT' in case['events'] and case['events']['TIMEOUT'][1] == 'none':
                k2 = max(1, len(s[1]) // 2)
                actions.append(['w', s[1][:k2].encode('utf-8').hex()])
                actions.append(['s', 1.5])
                actions.append(['w', s[1][k2:].encode('utf-8').hex()])
            else:
                actions.append(['w', s[1].encode('utf-8').hex()])
            actions.append(['recuntil', b'\n'.hex()])
        elif s[0] == 'say':
            actions.append(['w', s[1].encode('utf-8').hex()])
        elif s[0] == 'sleep':
            actions.append(['s', 1.5])
    actions.append(['exit', case['exit']])
    # model run
    log = []
    expected_lines = []
    out = ''
    stopped = None            # 'callback' | 'timeout'
    n_events = 0
    max_gap = 0
    gap = 0
    timeouts_possible = False
    for s in case['steps']:
        if stopped:
            break
        if s[0] == 'print':
            out += s[1]
            gap += len(s[1])
            continue
        if s[0] == 'print-raw':
            t_ = s[1].encode('latin-1').decode('utf-8', case.get('codec_errors') or 'strict')
            out += t_
            gap += len(t_)
            continue
        if s[0] == 'sleep':
            if 'TIMEOUT' in case['events']:
                timeouts_possible = True
                if case['events']['TIMEOUT'][1] == 'stop':
                    stopped = 'callback'
            else:
                stopped = 'timeout'
            continue
        tok = s[1]
        out += tok
        max_gap = max(max_gap, gap)
        gap = 0
        ev = case['events'].get(tok)
        if ev is None:
            if s[0] == 'ask':
                # nobody answers: the child waits for a line forever, run() ends by TIMEOUT
                if 'TIMEOUT' in case['events'] and case['events']['TIMEOUT'][1] != 'stop':
                    stopped = 'hang'        # TIMEOUT event fires forever: not generated (see below)
                elif 'TIMEOUT' in case['events']:
                    stopped = 'callback'
                else:
                    stopped = 'timeout'
            continue
        n_events += 1
        kind, what = ev
        if kind == 'str':
            resp = what + '\n'
        elif what == 'none':
            resp = None
        elif what == 'stop':
            resp = None
            stopped = 'callback'
        else:
            resp = what[4:] + '\n'
        if resp is not None:
            expected_lines.append(resp)
        elif s[0] == 'ask' and not stopped:
            # the event fired but sent nothing: the child keeps waiting
            if 'TIMEOUT' in case['events'] and case['events']['TIMEOUT'][1] != 'stop':
                stopped = 'hang'
            elif 'TIMEOUT' in case['events']:
                stopped = 'callback'
            else:
                stopped = 'timeout'
    if stopped == 'hang':
        if col is not None:
            col.discarded += 1
        return
    if not case['slow'] and stopped == 'timeout':
        # would cost the full 5 s timeout: only in the slow class
        if col is not None:
            col.discarded += 1
        return
    # ---- event table
    table = []
    rconv = (lambda x: x) if (case.get('str_resp') and not text_mode) else conv
    if case.get('shadow'):
        for name in case['order']:
            if name in ('EOF', 'TIMEOUT') or len(name) < 3:
                continue
            inner = re.escape(name[1:-1]) + '(?=' + re.escape(name[-1]) + ')'
            table.append((conv(inner), (lambda nm: (lambda d: _conv_ret(respond(log, 'str:WRONG', 'shadow:' + nm, d), rconv)))(name)))
    for name in case['order']:
        kind, what = case['events'][name]
        key = EOF if name == 'EOF' else TIMEOUT if name == 'TIMEOUT' else conv(name.replace('?', r'\?'))
        if kind == 'str':
            val = rconv(what + '\n')
        elif kind == 'func':
            val = (lambda nm, wh: (lambda d: _conv_ret(respond(log, wh, nm, d), rconv)))(name, what)
        else:
            r = Responder(log, what, name)
            val = _Method(r, rconv).call
        table.append((key, val))
    if case.get('dup') and case['as_list']:
        # a caller's own entries followed by appended defaults for the same patterns: in a list the first entry for
        # a pattern is the one that answers
        for key, _v in list(table):
            if key is not EOF and key is not TIMEOUT:
                table.append((key, rconv('WRONG-LATER-ENTRY\n')))
    events = table if case['as_list'] else dict(table)
    if not table:
        events = None
    ps = peers.PeerScript(actions, raw=False, ready=None, record=True)
    try:
        line = ' '.join(ps.argv)
        kw = {'echo': False}
        if text_mode:
            kw['encoding'] = 'utf-8'
        if case.get('sws'):
            kw['searchwindowsize'] = case['sws']
        if case.get('codec_errors'):
            kw['codec_errors'] = case['codec_errors']
        if case.get('use_poll'):
            kw['use_poll'] = True
        if case.get('logfile'):
            import io
            kw['logfile'] = io.StringIO() if text_mode else io.BytesIO()
        t0 = time.time()
        with guard('run()', allow=()):
            res = pexpect.run(line, timeout=T, withexitstatus=case['withexit'], events=events,
                              extra_args=case['extra'], **kw)
        el = time.time() - t0
        if case['withexit']:
            got_out, status = res
        else:
            got_out, status = res, None
        want_out = conv(out.replace('\n', '\r\n'))
        if not isinstance(got_out, type(want_out)):
            raise Violation('run-type', 'run() returned %r in %s mode' % (type(got_out), 'unicode' if text_mode else 'bytes'))
        if got_out != want_out:
            k = 0
            while k < min(len(got_out), len(want_out)) and got_out[k] == want_out[k]:
                k += 1
            raise Violation('run-output', 'run() returned %d characters, the child printed %d up to the stop point (%s); first '
                            'difference at %d: got %r, expected %r'
                            % (len(got_out), len(want_out), stopped or 'EOF', k, got_out[k:k + 30], want_out[k:k + 30]))
        if case['withexit'] and not stopped and status != case['exit']:
            raise Violation('run-status', 'run(withexitstatus=True) returned status %r, the child exits with %d' % (status, case['exit']))
        # callbacks: one call per occurrence (plus EOF / TIMEOUT firings), event_count 0,1,2,...
        calls = [c for c in log]
        for i, c in enumerate(calls):
            if not c['is_dict'] or not c['has_child'] or c['extra_args'] != case['extra']:
                raise Violation('callback-args', 'callback %d got has_child=%r extra_args=%r (passed %r)'
                                % (i, c['has_child'], c['extra_args'], case['extra']))
        want_calls = []
        seen_tokens = 0
        m_stopped = False
        for s in case['steps']:
            if m_stopped:
                break
            if s[0] in ('ask', 'say'):
                ev = case['events'].get(s[1])
                if ev is not None:
                    seen_tokens += 1
                    if ev[0] != 'str':
                        want_calls.append(s[1])
                        if ev[1] == 'stop':
                            m_stopped = True
                    elif False:
                        pass
                    if ev[0] == 'str' or ev[1] != 'none':
                        pass
                    elif s[0] == 'ask':
                        m_stopped = True
                elif s[0] == 'ask':
                    m_stopped = True
            elif s[0] == 'sleep' and 'TIMEOUT' not in case['events']:
                m_stopped = True
            elif s[0] == 'sleep' and case['events']['TIMEOUT'][1] == 'stop':
                m_stopped = True
        got_tok_calls = [c['event'] for c in calls if c['event'] not in ('EOF', 'TIMEOUT')]
        if got_tok_calls != want_calls:
            raise Violation('callback-sequence', 'callbacks fired for %r, the token occurrences with callbacks are %r'
                            % (got_tok_calls, want_calls))
        # event_count seen by callback k == number of events handled before it
        counts = [c['event_count'] for c in calls]
        if any(not isinstance(x, int) for x in counts) or counts != sorted(counts) or len(set(counts)) != len(counts):
            raise Violation('event-count', 'event_count values seen by the callbacks: %r' % counts)
        # string responses are events too: the k-th callback sees event_count == its position among all events
        # (only checkable when no TIMEOUT event is involved: their number depends on timing)
        if 'TIMEOUT' not in case['events']:
            pos = 0
            want_counts = []
            m_stopped = False
            for s in case['steps']:
                if m_stopped:
                    break
                if s[0] in ('ask', 'say'):
                    ev = case['events'].get(s[1])
                    if ev is not None:
                        if ev[0] != 'str':
                            want_counts.append(pos)
                            if ev[1] == 'stop':
                                m_stopped = True
                            elif ev[1] == 'none' and s[0] == 'ask':
                                m_stopped = True
                        pos += 1
                    elif s[0] == 'ask':
                        m_stopped = True
                elif s[0] == 'sleep':
                    m_stopped = True
            tok_counts = [c['event_count'] for c in calls if c['event'] not in ('EOF', 'TIMEOUT')]
            if tok_counts != want_counts:
                raise Violation('event-count', 'event_count seen by the token callbacks %r, expected %r' % (tok_counts, want_counts))
        if 'EOF' in case['events'] and not stopped:
            if sum(1 for c in calls if c['event'] == 'EOF') != 1:
                raise Violation('callback-sequence', 'the EOF event fired %d times' % sum(1 for c in calls if c['event'] == 'EOF'))
        # what the child received
        time.sleep(0.02)
        rec = ps.received().decode('utf-8', 'replace')
        want_rec = ''.join(expected_lines)
        if not stopped and rec != want_rec:
            raise Violation('responses', 'the child received %r, the responses in stream order are %r' % (rec, want_rec))
        if stopped and not want_rec.startswith(rec) and not rec.startswith(want_rec):
            raise Violation('responses', 'the child received %r, the responses in stream order are %r' % (rec, want_rec))
        n_to = sum(1 for c in calls if c['event'] == 'TIMEOUT')
        nt = (n_events + n_to) >= 2 or (n_to >= 1 and any(s[0] == 'print' for s in case['steps'])) or max_gap > 2000
        if col is not None:
            if n_to:
                col.label('TIMEOUT-event-fired')
            if max_gap > 2000:
                col.label('output>maxread-between-events')
            col.label('stop=' + (stopped or 'EOF'))
            if any(s_[0] == 'print' and len(s_) > 2 for s_ in case['steps']):
                col.label('text-cut-inside-a-character')
            col.case(case, nt)
    finally:
        ps.cleanup()


def _conv_ret(r, conv):
    if isinstance(r, str):
        return conv(r)
    return r


class _Method(object):
    def __init__(self, responder, conv):
        self.r, self.conv = responder, conv

    def call(self, d):
        return _conv_ret(self.r.method(d), self.conv)


# ---------------------------------------------------------------------------
# a parent that is held up at a chosen point of the read path

@st.composite
def delayed_cases(draw):
    """The child prints a few pieces with short pauses and exits; the parent is held up just before its k-th
    liveness check until the child has gone (as if it had been descheduled there), so that the last output is
    written, and the child dies, between two consecutive system calls of one read."""
    n = draw(st.integers(1, 4))
    return {'kind': 'delayed', 'text_mode': draw(st.booleans()),
            'prints': [''.join(draw(st.lists(st.sampled_from(TEXT), min_size=1, max_size=4))) for _ in range(n)],
            'gaps': [draw(st.sampled_from([0.0, 0.02, 0.15])) for _ in range(n)],
            'exit': draw(st.sampled_from([0, 3, 77])), 'arm': draw(st.integers(1, 4)),
            'use_poll': draw(st.booleans())}


def check_delayed(case, col=None):
    from pexpect import pty_spawn
    text_mode = case['text_mode']
    conv = (lambda x: x) if text_mode else (lambda x: x.encode('utf-8'))
    actions = []
    for g, p in zip(case['gaps'], case['prints']):
        if g:
            actions.append(['s', g])
        actions.append(['w', p.encode('utf-8').hex()])
    actions.append(['exit', case['exit']])
    ps = peers.PeerScript(actions, raw=False, ready=None, record=False)
    calls = [0]
    held = [False]
    orig = pty_spawn.spawn.isalive

    def isalive(self):
        calls[0] += 1
        if calls[0] == case['arm'] and not self.terminated:
            held[0] = True
            try:
                os.waitid(os.P_PID, self.pid, os.WEXITED | os.WNOWAIT)      # wait for the death without reaping
            except (OSError, AttributeError):
                pass
        return orig(self)
    pty_spawn.spawn.isalive = isalive
    try:
        kw = {'echo': False, 'use_poll': case['use_poll']}
        if text_mode:
            kw['encoding'] = 'utf-8'
        with guard('run() with a parent held up before liveness check %d' % case['arm'], allow=()):
            out, status = pexpect.run(' '.join(ps.argv), timeout=10, withexitstatus=True, **kw)
    finally:
        pty_spawn.spawn.isalive = orig
        ps.cleanup()
    want = conv(''.join(case['prints']).replace('\n', '\r\n'))
    if out != want:
        raise Violation('run-output', 'run() returned %d characters, the child printed %d before it exited (the parent was held up '
                        'just before liveness check %d until the child had gone): got %r, expected %r'
                        % (len(out), len(want), case['arm'], out[-40:], want[-40:]))
    if status != case['exit']:
        raise Violation('run-status', 'run(withexitstatus=True) returned status %r, the child exits with %d' % (status, case['exit']))
    if col is not None:
        col.label('delayed-parent')
        if held[0]:
            col.label('parent-held-before-liveness-check')
        col.case(case, held[0])


def run_shard(spec, seed, idx, deadline_ts):
    col = Collector()
    if spec.get('kind') == 'delayed':
        def dbody(case, c):
            with case_watchdog(60, 'C12 run() with a delayed parent'):
                check_delayed(case, c)
        run_batches(dbody, delayed_cases(), spec['n'], seed * 1000 + idx, col, batch=40, shrink=False, deadline_ts=deadline_ts)
        return col

    def body(case, c):
        with case_watchdog(60, 'C12 run() dialogue'):
            check_case(case, c)
    run_batches(body, cases(), spec['n'], seed * 1000 + idx, col, batch=30, shrink=False, deadline_ts=deadline_ts)
    return col


def replay(case, spec=None):
    if case.get('kind') == 'delayed':
        return check_delayed(case)
    check_case(case)


def _probe_timeout_event():
    check_case({'text_mode': False, 'steps': [['print', 'AAA\n'], ['sleep'], ['print', 'BBB\n']],
                'events': {'TIMEOUT': ['func', 'none']}, 'order': ['TIMEOUT'], 'as_list': False, 'exit': 0,
                'withexit': True, 'slow': True, 'extra': None})


def _probe_split_prompt():
    check_case({'text_mode': False, 'steps': [['print', 'hello\n'], ['ask', 'PASS:', 'split'], ['print', 'done\n']],
                'events': {'PASS:': ['str', 'alice'], 'TIMEOUT': ['func', 'none']}, 'order': ['PASS:', 'TIMEOUT'], 'as_list': True,
                'exit': 3, 'withexit': True, 'slow': True, 'extra': None})


def _probe_timeout_stop():
    check_case({'text_mode': True, 'steps': [['print', 'AAA\n'], ['sleep'], ['print', 'BBB\n']],
                'events': {'TIMEOUT': ['func', 'stop']}, 'order': ['TIMEOUT'], 'as_list': True, 'exit': 0,
                'withexit': False, 'slow': True, 'extra': 7})


PROBES = [('probe:prompt-split-across-timeout-event', 'a prompt whose two halves arrive on either side of a TIMEOUT event is still answered', _probe_split_prompt),
          ('probe:timeout-callback-stop', 'a TIMEOUT callback returning true ends run() with the output seen so far', _probe_timeout_stop),
          ('probe:timeout-event-duplicates-output', 'with TIMEOUT as an event the not yet consumed output is appended again '
           'on every firing', _probe_timeout_event)][::-1]
