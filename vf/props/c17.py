"""C17 pxssh login: secrets only when asked, success only at a prompt, else raises.

A scripted fake ssh client (peers/fakessh.py, passed through login(cmd=...))
plays a generated dialogue of <= 8 steps over {host-key question, password
prompt, passphrase prompt, permission denied, terminal-type question, banner
text (with $ # > characters, never matching the password regex), shell prompt
(sh / csh / zsh flavour, echoing pty, echo command), connection closed,
silence, exit} and records everything it receives together with the step
during which it arrived.  Timeouts are scaled down through the public
arguments (timeout, login_timeout, sync_multiplier); the 10 s hard-coded in
set_unique_prompt is capped by a harness subclass that overrides expect()
(logic untouched).

Oracle:
 (1) the password appears in what the fake received at most once, and only as
     the line read by a password/passphrase step; "yes" only as the line read
     by the host-key step;
 (2) login() returned True  =>  the fake had reached its shell step; with
     auto_prompt_reset it received a prompt-set command it honours and PROMPT
     matches what it now prints; then k generated commands through sendline()
     / prompt() each give before == echo + that command's output;
 (3) every other dialogue ends in a pexpect.ExceptionPexpect subclass within
     the configured timeouts (+ margin); no other exception, no silent True;
 (4) the canonical dialogues (host key?, password|passphrase?, terminal type?,
     harmless banners, shell prompt) must succeed.
"""
import json
import os
import re
import shutil
import sys
import tempfile
import time

from hypothesis import strategies as st

from ..common import Violation, Collector, run_batches, guard, case_watchdog, VERIF

import pexpect
from pexpect import pxssh
from pexpect.exceptions import EOF, TIMEOUT, ExceptionPexpect

PROPERTY = 'C17'
RULE = ('Hypothesis-generated server dialogues (1-8 steps) x login options (auto_prompt_reset, sync_original_prompt, '
        'quiet, port, ssh_key=True, check_local_ip, options) x shell flavour sh|csh|zsh x bytes|utf-8, against a '
        'scripted fake ssh that records what it receives and when.  Non-trivial: a dialogue of >= 3 steps that reaches '
        'the second phase, or a banner containing prompt-like characters, or a non-sh flavour.  Distinct by hash of the case.')
ASSUMPTIONS = [
    'banner text never matches the password regex (a MOTD containing "password:" is a documented hazard, not generated); '
    'banners that merely mention a password, a passphrase, permissions, a terminal or a connection are generated',
    'a canonical login that fails under the scaled-down timeouts (1.5 s, sync_multiplier 0.4) is repeated once with the '
    'default multiplier and 8 s timeouts before it counts',
    'timeouts are scaled through public arguments; a harness subclass maps the hard-coded 10 s of set_unique_prompt to 0.4 s',
    'the dialogue class "no shell is ever reached while both sync_original_prompt and auto_prompt_reset are off" is '
    'excluded from random generation and probed deterministically (open known finding)',
]
BUDGET = {'quick': 280, 'thorough': 1500}
PROCS = 8

PY = sys.executable
FAKE = os.path.join(VERIF, 'peers', 'fakessh.py')
PASSWORD = 's3cr3t-Pw'


class SeqLog(object):
    """read and send logs sharing one sequence: the order of what was read and what was sent is known"""

    def __init__(self, events, direction):
        self.events, self.direction = events, direction

    def write(self, s):
        if isinstance(s, bytes):
            s = s.decode('utf-8', 'replace')
        self.events.append((self.direction, s))

    def flush(self):
        pass


class FastPxssh(pxssh.pxssh):
    """Same logic; the hard-coded 10 s waits of set_unique_prompt() become 0.4 s."""

    short = 0.4

    def expect(self, pattern, timeout=-1, *a, **kw):
        if timeout == 10:
            timeout = self.short
        return pxssh.pxssh.expect(self, pattern, timeout, *a, **kw)


def shards(tier):
    q = tier == 'quick'
    return [{'n': 14 if q else 260} for _ in range(16)]


BANNERS_CLEAN = ['Welcome to host h\r\n', 'Last login: Mon Oct  5 10:00:00 2026 from 10.0.0.2\r\n', 'Linux 6.1 x86_64\r\n\r\n',
                 # near misses of the questions login() answers: none of these asks anything
                 'Warning: your password will expire in 7 days\r\n', 'Your passphrase was changed last week\r\n',
                 'permissions of ~/.ssh are fine, terminal ready, connection established\r\n']
BANNERS_TRICKY = ['You have 3 new messages > inbox\r\n', 'Balance: 100$ \r\n', '### NOTICE ###\r\n', 'cost: $5 # approx\r\n']
PROMPTS = ['user@h:~$ ', '# ', 'h> $ ', '[user@h ~]$ ',
           'h[#6]$ ', 'h[#6]$ ', 'h[#96]$ ', 'h[#7]$ ']       # a command counter in the prompt: it grows a digit while login() synchronises


@st.composite
def cases(draw):
    kind = draw(st.sampled_from(['canonical', 'canonical', 'random']))
    flavour = draw(st.sampled_from(['sh', 'sh', 'csh', 'zsh']))
    shell = ['shell', flavour, draw(st.sampled_from(PROMPTS))]
    if kind == 'canonical':
        steps = []
        if draw(st.booleans()):
            steps.append(['hostkey'])
        k = draw(st.integers(0, 2))
        if k == 1:
            steps.append(['password'])
        elif k == 2:
            steps.append(['passphrase'])
        if draw(st.integers(0, 3)) == 0:
            steps.append(['termtype'])
        for _ in range(draw(st.integers(0, 2))):
            steps.append(['banner', draw(st.sampled_from(BANNERS_CLEAN))])
        if draw(st.integers(0, 7)) == 0:
            # a shell (or link) that takes 0.3 s over every line while the terminal echoes at once: the replies to
            # what login() sends arrive long after its short synchronisation windows have closed
            shell = shell + [None, 0.3]
        steps.append(shell)
    else:
        atom = st.one_of(st.just(['hostkey']), st.just(['password']), st.just(['password']), st.just(['passphrase']),
                         st.just(['termtype']), st.just(['denied']), st.just(['closed']), st.just(['exit']),
                         st.just(['silence', 30]), st.just(shell),
                         # a shell that prints its prompt and is gone after a few lines (connection lost right after login)
                         st.builds(lambda k: shell + [k], st.sampled_from([0, 1, 2, 3, 4, 6])),
                         st.builds(lambda b: ['banner', b], st.sampled_from(BANNERS_CLEAN + BANNERS_TRICKY)))
        steps = draw(st.lists(atom, min_size=1, max_size=8))
        # a dialogue simply ends when the script ends: make the ending explicit
        if steps[-1][0] not in ('shell', 'closed', 'exit', 'silence'):
            steps.append(draw(st.sampled_from([['silence', 30], ['exit'], ['closed'], shell])))
        # everything after the first terminal step is unreachable
        for i, s_ in enumerate(steps):
            if s_[0] in ('shell', 'closed', 'exit', 'silence'):
                steps = steps[:i + 1]
                break
    opts = {'auto_prompt_reset': draw(st.sampled_from([True, True, True, False])),
            'sync_original_prompt': draw(st.sampled_from([True, True, False])),
            'quiet': draw(st.booleans()), 'port': draw(st.sampled_from([None, 2222])),
            'ssh_key': draw(st.sampled_from([None, None, True])), 'check_local_ip': draw(st.booleans())}
    return {'kind': kind, 'steps': steps, 'opts': opts, 'text_mode': draw(st.booleans()),
            'options': draw(st.sampled_from([{}, {'StrictHostKeyChecking': 'no'}])),
            'commands': draw(st.lists(st.sampled_from(['echo alpha', 'echo two words', 'echo $ # >', 'true', '',
                                                       'echo 0123456789-0123456789-0123456789-0123456789-0123456789']),
                                      min_size=0, max_size=3)),
            # the commands are typed ahead (all sent before the first prompt() call): several outputs and prompts
            # may then arrive in one read
            'typeahead': draw(st.booleans())}


def reaches_shell(steps):
    return steps[-1][0] == 'shell'


def read_record(path):
    out = []
    if not os.path.exists(path):
        return out
    with open(path) as f:
        for line in f:
            line = line.strip()
            if line:
                out.append(json.loads(line))
    return out


def check_secrets(rec, where):
    n_pw = 0
    for e in rec:
        if e['event'] != 'line' or e['data'] is None:
            continue
        if PASSWORD in e['data']:
            n_pw += 1
            if e['kind'] not in ('password', 'passphrase') or e['data'] != PASSWORD:
                raise Violation('password-leaked', '%s: the password was received during the %r step as %r'
                                % (where, e['kind'], e['data']))
        if e['kind'] == 'termtype' and e['data'] not in ('ansi', '', PASSWORD, 'yes') and not e['data'].startswith(('unset', 'PS1', 'set prompt', 'prompt restore')):
            raise Violation('termtype-answer', '%s: the terminal-type question was answered with %r' % (where, e['data']))
        if e['data'].strip() == 'yes' and e['kind'] != 'hostkey':
            raise Violation('yes-unasked', "%s: 'yes' was received during the %r step" % (where, e['kind']))
    if n_pw > 1:
        raise Violation('password-sent-twice', '%s: the password was sent %d times' % (where, n_pw))


def check_sent(events, where):
    """What login() itself sent, in order with what it had read: the password at most once and only when the
    text read last ends in a password/passphrase prompt; 'yes' only after the host-key question."""
    n_pw = 0
    read_so_far = ''
    for direction, text in events:
        if direction == 'read':
            read_so_far += text
            continue
        if PASSWORD in text:
            n_pw += 1
            tail = read_so_far.rstrip()[-60:]
            if not re.search(r"(?i)(password:|passphrase for key[^\n]*:)\s*$", tail):
                raise Violation('password-leaked', '%s: the password was sent when the last output was %r' % (where, tail))
        if text.strip() == 'yes':
            tail = read_so_far.rstrip()[-80:]
            if 'continue connecting' not in tail:
                raise Violation('yes-unasked', "%s: 'yes' was sent when the last output was %r" % (where, tail))
    if n_pw > 1:
        raise Violation('password-sent-twice', '%s: login() sent the password %d times' % (where, n_pw))


def check_case(case, col=None, sync_multiplier=0.4, T=1.5):
    steps = case['steps']
    o = case['opts']
    tmp = tempfile.mkdtemp(prefix='c17_')
    record = os.path.join(tmp, 'record.jsonl')
    script = os.path.join(tmp, 'script.json')
    with open(script, 'w') as f:
        json.dump({'steps': steps, 'record': record}, f)
    kw = {'timeout': T}
    if case['text_mode']:
        kw['encoding'] = 'utf-8'
    s = FastPxssh(options=dict(case['options']), **kw)
    slow_shell = steps[-1][0] == 'shell' and len(steps[-1]) > 4 and steps[-1][4]
    if slow_shell:
        s.short = 10            # a slow shell needs the real waits of set_unique_prompt()
    events = []
    s.logfile_read = SeqLog(events, 'read')
    s.logfile_send = SeqLog(events, 'send')
    where = 'dialogue %s with %r' % ([x[0] for x in steps], {k: v for k, v in o.items() if k in ('auto_prompt_reset', 'sync_original_prompt')})
    ok = exc = None
    t0 = time.time()
    feats = set()
    try:
        try:
            with guard('login()', allow=(ExceptionPexpect,)):
                ok = s.login('h', 'user', PASSWORD, login_timeout=T, sync_multiplier=sync_multiplier,
                             cmd='%s -S -E %s %s' % (PY, FAKE, script), **o)
        except ExceptionPexpect as e:
            exc = e
        el = time.time() - t0
        time.sleep(0.02)
        rec = read_record(record)
        check_secrets(rec, where)
        check_sent(events, where)
        shell_reached = any(e['event'] == 'shell' for e in rec)
        # the ssh client was started with the options that were asked for
        argv = [e['data'] for e in rec if e['event'] == 'argv']
        if argv:
            a = argv[0]
            want = ['-l', 'user']
            if o['quiet']:
                want.append('-q')
            if o['port'] is not None:
                want += ['-p', str(o['port'])]
            if o['ssh_key'] is True:
                want.append('-A')
            for k_, v_ in case['options'].items():
                want += ['-o', '%s=%s' % (k_, v_)]
            if not o['check_local_ip']:
                want.append('-oNoHostAuthenticationForLocalhost=yes')
            missing = [w for w in want if w not in a]
            if missing or a[-1] != 'h':
                raise Violation('ssh-argv', '%s: the ssh client was started with %r; expected options %r and the server last'
                                % (where, a, want))
            if not o['quiet'] and '-q' in a:
                raise Violation('ssh-argv', '%s: -q passed although quiet=False (%r)' % (where, a))
            if o['port'] is None and '-p' in a:
                raise Violation('ssh-argv', '%s: -p passed although no port was given (%r)' % (where, a))
        # (3) time bound: every wait is one of the configured timeouts; the longest legitimate chain is
        #     login_timeout + 3 expects + sync (12 x 3 x multiplier) + 3 x prompt-set waits
        bound = T + 3 * T + 4 * 3.0 * sync_multiplier + 3 * 0.4 + 5.0
        if el > bound:
            raise Violation('login-too-slow', '%s: login() took %.1f s, the configured timeouts add up to %.1f s' % (where, el, bound - 5.0))
        if exc is None:
            if ok is not True:
                raise Violation('login-return', '%s: login() returned %r' % (where, ok))
            if not shell_reached:
                raise Violation('silent-success', '%s: login() returned True although the fake never reached a shell prompt '
                                '(it is at step %r)' % (where, rec[-1]['kind'] if rec else None))
            if o['auto_prompt_reset']:
                sets = [e for e in rec if e['event'] == 'prompt-set']
                if not sets:
                    raise Violation('prompt-not-set', '%s: login() returned True with auto_prompt_reset but the shell never '
                                    'received a prompt-set command it honours' % where)
                if not re.search(s.PROMPT, sets[-1]['data']):
                    raise Violation('prompt-not-set', '%s: PROMPT %r does not match the prompt now printed %r' % (where, s.PROMPT, sets[-1]['data']))
                # prompt() delimits each command's output exactly (not asked of a shell scripted to go away)
                dying = len(steps[-1]) > 3 and steps[-1][3] is not None
                cmds = [] if dying else case['commands']
                if case.get('typeahead'):
                    for cmd in cmds:
                        s.sendline(cmd)
                    if cmds:
                        time.sleep(0.05)
                for cmd in cmds:
                    conv = (lambda x: x) if case['text_mode'] else (lambda x: x.encode('utf-8'))
                    if not case.get('typeahead'):
                        s.sendline(cmd)
                    if not s.prompt(timeout=3):
                        raise Violation('prompt-timeout', '%s: prompt() timed out after %r' % (where, cmd))
                    want = cmd + '\r\n' + ((cmd[5:] + '\r\n') if cmd.startswith('echo ') else '')
                    if s.before != conv(want):
                        raise Violation('prompt-delimits', '%s: after %r before=%r, the command echo + output is %r'
                                        % (where, cmd, s.before, conv(want)))
                    feats.add('commands-after-login')
                r = False if dying else s.prompt(timeout=0.3)
                if r is not False:
                    raise Violation('prompt-without-prompt', '%s: prompt() returned %r although the shell printed no further prompt' % (where, r))
        else:
            if case['kind'] == 'canonical' and sync_multiplier < 1.0:
                # pxssh's prompt synchronisation is a timing heuristic and all timeouts here are scaled down: before
                # calling this a failure, repeat the dialogue with the default multiplier and generous timeouts
                if col is not None:
                    col.count('canonical_retries_with_default_sync_multiplier')
                s.close(force=True)
                shutil.rmtree(tmp, ignore_errors=True)
                return check_case(case, col, sync_multiplier=1.0, T=8.0)
            if case['kind'] == 'canonical':
                raise Violation('canonical-login-failed', '%s: login() raised %s: %s' % (where, type(exc).__name__, str(exc)[:150]))
        if case['kind'] == 'canonical' and exc is None:
            feats.add('canonical-success')
    finally:
        try:
            s.close(force=True)
        except Exception:
            pass
        shutil.rmtree(tmp, ignore_errors=True)
    second_phase = len(steps) >= 3 and any(x[0] in ('hostkey', 'password', 'passphrase', 'termtype') for x in steps[:-1])
    tricky = any(x[0] == 'banner' and x[1] in BANNERS_TRICKY for x in steps)
    nonsh = steps[-1][0] == 'shell' and steps[-1][1] != 'sh'
    nt = second_phase or tricky or nonsh
    if col is not None:
        for f in feats:
            col.label(f)
        col.label('outcome=' + ('True' if exc is None else type(exc).__name__))
        if tricky:
            col.label('tricky-banner')
        if nonsh:
            col.label('flavour=' + steps[-1][1])
        col.case(case, nt)


def excluded_known(case):
    """Both verification steps disabled and the dialogue ends in silence after steps that login() answers normally:
    the second phase sees TIMEOUT (or takes banner text for a prompt) and can only guess.  Dialogues that contain a
    refusal, a repeated question, a closed connection or an exit are *not* excluded: they must raise."""
    o = case['opts']
    if o['auto_prompt_reset'] or o['sync_original_prompt']:
        return False
    steps = case['steps']
    # second facet of the same finding: with both checks off, banner text containing '$' or '#' is taken for the
    # prompt and login() returns True wherever the dialogue happens to be - also when it would have reached a shell
    # a few steps later
    for k_, x in enumerate(steps[:-1]):
        if x[0] in ('denied', 'closed', 'exit'):
            break
        if x[0] == 'banner' and re.search(r'[#$]', x[1]) and k_ < len(steps) - 2:
            return True
    if steps[-1][0] == 'shell':
        return False
    tricky_first = False
    for x in steps:
        if x[0] == 'banner' and re.search(r'[#$]', x[1]):
            tricky_first = True         # the optimistic default original_prompt matches banner text
            break
        if x[0] in ('denied', 'closed', 'exit'):
            break
    if steps[-1][0] != 'silence' and not tricky_first:
        return False
    kinds = [x[0] for x in steps[:-1]]
    if tricky_first:
        return True
    if 'denied' in kinds or kinds.count('hostkey') > 1 or kinds.count('termtype') > 1:
        return False
    if kinds.count('password') + kinds.count('passphrase') > 1:
        return False
    return True


def run_shard(spec, seed, idx, deadline_ts):
    col = Collector()

    def body(case, c):
        if excluded_known(case):
            c.excluded_known += 1
            return
        with case_watchdog(200, 'C17 login dialogue'):
            check_case(case, c)
    run_batches(body, cases(), spec['n'], seed * 1000 + idx, col, batch=20, shrink=False, deadline_ts=deadline_ts)
    return col


def replay(case, spec=None):
    check_case(case)


def _probe_silent_success():
    # (second facet, same root cause, reported under the same key: banner text containing '$' or '#' is taken for the
    #  prompt - [['banner', 'cost: $5 # approx'], ['closed']] also returns True with both checks off)
    check_case({'kind': 'random', 'steps': [['silence', 30]], 'opts': {'auto_prompt_reset': False, 'sync_original_prompt': False,
                'quiet': True, 'port': None, 'ssh_key': None, 'check_local_ip': True}, 'text_mode': False, 'options': {}, 'commands': []})


def _probe_canonical():
    base = {'kind': 'canonical', 'opts': {'auto_prompt_reset': True, 'sync_original_prompt': True, 'quiet': True, 'port': None,
            'ssh_key': None, 'check_local_ip': True}, 'text_mode': False, 'options': {}, 'commands': ['echo alpha']}
    check_case(dict(base, steps=[['hostkey'], ['password'], ['banner', BANNERS_CLEAN[0]], ['shell', 'sh', 'user@h:~$ ']]))
    check_case(dict(base, steps=[['password'], ['shell', 'csh', '# ']], text_mode=True))
    check_case(dict(base, steps=[['password'], ['password'], ['exit']], kind='random'))


def _probe_refusals_checks_off():
    """with both later checks disabled a refusal, a repeated question, a closed connection or an exit must still raise"""
    base = {'kind': 'random', 'opts': {'auto_prompt_reset': False, 'sync_original_prompt': False, 'quiet': True, 'port': None,
            'ssh_key': None, 'check_local_ip': True}, 'text_mode': False, 'options': {}, 'commands': []}
    for steps in ([['password'], ['denied'], ['silence', 30]], [['closed']], [['exit']], [['password'], ['password'], ['silence', 30]],
                  [['hostkey'], ['hostkey'], ['silence', 30]], [['banner', BANNERS_CLEAN[0]], ['closed']],
                  [['password'], ['closed']], [['termtype'], ['termtype'], ['silence', 30]]):
        case = dict(base, steps=steps)
        assert not excluded_known(case), steps
        check_case(case)


def _probe_failed_checks_must_raise():
    """each of the two later checks, when it is the only one enabled and cannot succeed, must make login() raise:
    a server that goes silent after something the optimistic prompt pattern accepts / after a password"""
    base = {'kind': 'random', 'text_mode': False, 'options': {}, 'commands': []}
    o = {'quiet': True, 'port': None, 'ssh_key': None, 'check_local_ip': True}
    for steps in ([['banner', BANNERS_TRICKY[3]], ['silence', 30]], [['password'], ['silence', 30]],
                  [['banner', BANNERS_TRICKY[1]], ['closed']]):
        check_case(dict(base, steps=steps, opts=dict(o, auto_prompt_reset=False, sync_original_prompt=True)))
        check_case(dict(base, steps=steps, opts=dict(o, auto_prompt_reset=True, sync_original_prompt=False)))


PROBES = [
    ('probe:failed-later-check-raises', 'a silent or closed server with exactly one of sync_original_prompt / auto_prompt_reset '
     'enabled: that check fails and login() must raise', _probe_failed_checks_must_raise),
    ('probe:refusals-with-checks-off', 'refusals / closed connections with sync_original_prompt=False and auto_prompt_reset=False '
     'must raise', _probe_refusals_checks_off),
    ('probe:canonical-dialogues', 'the documented happy paths and a refused password', _probe_canonical),
    ('probe:silent-server-both-checks-off', 'a server that never prints anything, sync_original_prompt=False and '
     'auto_prompt_reset=False: login() returns True after login_timeout', _probe_silent_success),
]
