"""C19 Screen operations do what their documentation says and nothing else.

Model-based testing: generated sequences of public pexpect.screen operations
(arguments from {below range, edges, interior, size, size+1, far out, swapped
corners}; characters as str or as complete bytes characters) are applied to
the real screen and to the reference grid of vf/engines/screenmodel.py; after
every step the whole grid (get_abs over all cells), the cursor, get(),
get_region, dump(), str() and pretty() must describe the model grid - which
also gives the frame condition (every cell the documentation does not name is
unchanged).  Thorough adds an exhaustive sweep of all operation sequences of
length <= 3 over a boundary alphabet on 1x1, 1x2 and 2x2 screens.
"""
import itertools
import warnings

from hypothesis import strategies as st

from ..common import Violation, Collector, run_batches, guard, case_watchdog
from ..engines.screenmodel import Grid

warnings.simplefilter('ignore')
from pexpect import screen as screen_mod   # noqa: E402

PROPERTY = 'C19'
RULE = ('Hypothesis-generated operation sequences (<= 25 steps) over every public screen operation on screens '
        '1x1..4x5 (latin-1 or utf-8, str or bytes characters, LF/CR/ESC/NUL among them), arguments from {-3,0,1,2,interior,size-1,size,'
        'size+1,99}, compared step by step with a reference grid written from the docstrings; accessors compared '
        'after every step.  Non-trivial: >= 3 operations including one with an out-of-range argument or a '
        'non-default scroll region in force.  Distinct by hash of the case.  Thorough: plus all sequences of '
        'length <= 3 over a 40-operation boundary alphabet on 1x1, 1x2, 2x2 (exhaustive: true for that sub-sweep).')
ASSUMPTIONS = [
    'erase_down/erase_up are read as <ESC>[0J / <ESC>[1J (from the cursor / up to the cursor, plus the lines '
    'strictly below / above), which is how the code implements them on every line but the last / first',
    'the row vacated by scroll_up/scroll_down may stay or become blank (undocumented); cursor_up_reverse on the '
    'top line may change rows of the scroll region only; lf() on the bottom line scrolls the region and blanks '
    'the cursor line',
    'single characters only (the API documents "a character"), control characters (LF, CR, ESC, NUL) included: the screen stores what it is given; bytes arguments are complete characters',
]
BUDGET = {'quick': 200, 'thorough': 1500}
EXHAUSTIVE_NOTE = 'all operation sequences of length <= 3 over the boundary alphabet on 1x1, 1x2, 2x2 screens'

CHARS = ['a', 'b', 'Z', '#', ' ', '\xe9', '\xff', '\n', '\r', '\x1b', '\x00']
CHARS_U = CHARS + ['€']

NOARG = ['cr', 'lf', 'crlf', 'newline', 'cursor_up_reverse', 'cursor_save', 'cursor_unsave', 'cursor_save_attrs',
         'cursor_restore_attrs', 'scroll_screen', 'scroll_down', 'scroll_up', 'erase_end_of_line',
         'erase_start_of_line', 'erase_line', 'erase_down', 'erase_up', 'erase_screen', 'set_tab', 'clear_tab',
         'clear_all_tabs', 'get']
IMPL_ROWS = ('scroll_up', 'scroll_down', 'lf', 'crlf', 'newline', 'cursor_up_reverse')


def shards(tier):
    n = 4000 if tier == 'quick' else 60000
    out = []
    if tier == 'thorough':
        out += [{'kind': 'sweep', 'dims': d, 'part': k, 'parts': 8} for d in ([1, 1], [1, 2], [2, 2]) for k in range(8)]
    out += [{'kind': 'rand', 'n': n} for _ in range(16)]
    return out


def coord(size):
    return st.sampled_from([-3, 0, 1, 2, max(1, size // 2), size - 1, size, size + 1, 99])


@st.composite
def op(draw, rows, cols, chars):
    k = draw(st.integers(0, 13))
    ch = draw(st.sampled_from(chars))
    as_bytes = draw(st.integers(0, 3)) == 0
    R, C = coord(rows), coord(cols)
    if k == 0:
        return ['put_abs', draw(R), draw(C), ch, as_bytes]
    if k == 1:
        return ['put', ch, as_bytes]
    if k == 2:
        return ['insert_abs', draw(R), draw(C), ch, as_bytes]
    if k == 3:
        return ['insert', ch, as_bytes]
    if k == 4:
        return ['fill', ch, as_bytes]
    if k == 5:
        return ['fill_region', draw(R), draw(C), draw(R), draw(C), ch, as_bytes]
    if k == 6:
        return ['get_region', draw(R), draw(C), draw(R), draw(C)]
    if k == 7:
        return [draw(st.sampled_from(['cursor_home', 'cursor_force_position'])), draw(R), draw(C)]
    if k == 8:
        return [draw(st.sampled_from(['cursor_back', 'cursor_forward', 'cursor_up', 'cursor_down'])),
                draw(st.sampled_from([None, 0, 1, 2, rows, cols + 1, 99, -1]))]
    if k == 9:
        return ['scroll_screen_rows', draw(R), draw(R)]
    if k == 10:
        return ['get_abs', draw(R), draw(C)]
    return [draw(st.sampled_from(NOARG))]


@st.composite
def cases(draw):
    rows = draw(st.integers(1, 4))
    cols = draw(st.integers(1, 5))
    enc = draw(st.sampled_from(['latin-1', 'latin-1', 'utf-8']))
    chars = CHARS_U if enc == 'utf-8' else CHARS
    ops = draw(st.lists(op(rows, cols, chars), min_size=1, max_size=25))
    return {'rows': rows, 'cols': cols, 'enc': enc, 'ops': ops}


def check_shape(sc, rows, cols, after):
    if len(sc.w) != rows:
        raise Violation('shape', 'after %s the grid has %d rows, not %d' % (after, len(sc.w), rows))
    for i, row in enumerate(sc.w):
        if len(row) != cols:
            raise Violation('shape', 'after %s row %d has %d cells, not %d' % (after, i + 1, len(row), cols))
        for cell in row:
            if not isinstance(cell, str) or len(cell) != 1:
                raise Violation('shape', 'after %s a cell holds %r' % (after, cell))
    if not (1 <= sc.cur_r <= rows and 1 <= sc.cur_c <= cols):
        raise Violation('cursor-off-screen', 'after %s the cursor is at (%r,%r)' % (after, sc.cur_r, sc.cur_c))


def compare(sc, g, after):
    rows, cols = g.rows, g.cols
    check_shape(sc, rows, cols, after)
    want = g.text_rows()
    got = [''.join(sc.get_abs(r, c) for c in range(1, cols + 1)) for r in range(1, rows + 1)]
    if got != want:
        raise Violation('grid:' + after.split('(')[0], 'after %s the screen is %r, the documented result is %r' % (after, got, want))
    if (sc.cur_r, sc.cur_c) != (g.cr, g.cc):
        raise Violation('cursor:' + after.split('(')[0], 'after %s the cursor is (%d,%d), documented (%d,%d)'
                        % (after, sc.cur_r, sc.cur_c, g.cr, g.cc))
    if sc.dump() != g.dump():
        raise Violation('accessor:dump', 'dump() is %r for grid %r' % (sc.dump(), want))
    if str(sc) != g.str():
        raise Violation('accessor:str', 'str() is %r for grid %r' % (str(sc), want))
    if sc.pretty() != g.pretty():
        raise Violation('accessor:pretty', 'pretty() is %r for grid %r' % (sc.pretty(), want))
    if sc.get() != g.get():
        raise Violation('accessor:get', 'get() returned %r, the cell under the cursor is %r' % (sc.get(), g.get()))


def apply_op(sc, g, o, enc):
    name = o[0]
    args = list(o[1:])
    with guard('screen.%s%r' % (name, tuple(args))):
        if name in ('put_abs', 'put', 'insert_abs', 'insert', 'fill', 'fill_region'):
            as_bytes = args.pop()
            ch = args[-1]
            margs = list(args)
            if as_bytes:
                args[-1] = ch.encode(enc)
            getattr(sc, name)(*args)
            getattr(g, name)(*margs)
        elif name == 'get_region':
            got = sc.get_region(*args)
            want = g.get_region(*args)
            if got != want:
                raise Violation('accessor:get_region', 'get_region%r returned %r, the grid says %r' % (tuple(args), got, want))
        elif name == 'get_abs':
            got = sc.get_abs(*args)
            want = g.get_abs(*args)
            if got != want:
                raise Violation('accessor:get_abs', 'get_abs%r returned %r, the grid says %r' % (tuple(args), got, want))
        elif name == 'get':
            got = sc.get()
            if got != g.get():
                raise Violation('accessor:get', 'get() returned %r, the cell under the cursor is %r' % (got, g.get()))
        elif name in ('cursor_back', 'cursor_forward', 'cursor_up', 'cursor_down'):
            if args[0] is None:
                getattr(sc, name)()
                getattr(g, name)()
            else:
                getattr(sc, name)(args[0])
                getattr(g, name)(args[0])
        elif name in IMPL_ROWS:
            getattr(sc, name)()
            check_shape(sc, g.rows, g.cols, name)
            getattr(g, name)(sc.w)
        elif name == 'cr':
            sc.cr()
            g.cr_()
        elif name in ('set_tab', 'clear_tab', 'clear_all_tabs'):
            getattr(sc, name)()
        else:
            getattr(sc, name)(*args)
            getattr(g, name)(*args)


def check_case(case, col=None):
    rows, cols, enc = case['rows'], case['cols'], case['enc']
    sc = screen_mod.screen(rows, cols, encoding=enc)
    g = Grid(rows, cols)
    compare(sc, g, 'construction')
    oor = False
    region = False
    for o in case['ops']:
        after = '%s%r' % (o[0], tuple(o[1:]))
        apply_op(sc, g, o, enc)
        compare(sc, g, after)
        for a in o[1:]:
            if isinstance(a, int) and not isinstance(a, bool) and (a < 1 or a > max(rows, cols)):
                oor = True
        if (g.ss, g.se) != (1, rows):
            region = True
    nt = len(case['ops']) >= 3 and (oor or region)
    if col is not None:
        if oor:
            col.label('out-of-range-argument')
        if region:
            col.label('non-default-scroll-region')
        col.case(case, nt)


def boundary_alphabet(rows, cols):
    a = [[n] for n in NOARG if n not in ('set_tab', 'clear_tab', 'clear_all_tabs', 'newline', 'cursor_save_attrs',
                                           'cursor_restore_attrs')]
    a += [['put', 'x', False], ['insert', 'y', False], ['fill', 'z', False]]
    for r in (0, 1, rows + 1):
        for c in (0, cols, cols + 1):
            a.append(['cursor_home', r, c])
    a += [['put_abs', 0, 0, 'p', False], ['put_abs', rows + 1, cols + 1, 'q', False],
          ['insert_abs', 1, 0, 'i', False], ['insert_abs', rows, cols + 1, 'j', False],
          ['fill_region', rows + 1, cols + 1, 0, 0, 'f', False], ['fill_region', 1, 1, 1, 1, 'g', True],
          ['scroll_screen_rows', 0, 0], ['scroll_screen_rows', 1, rows], ['scroll_screen_rows', rows, 1],
          ['scroll_screen_rows', rows + 1, rows + 2], ['scroll_screen_rows', 1, 0],
          ['cursor_down', 99], ['cursor_forward', 99], ['cursor_up', 0], ['cursor_back', -1]]
    return a


def run_sweep(spec, col, deadline_ts):
    import time
    rows, cols = spec['dims']
    alpha = boundary_alphabet(rows, cols)
    n = 0
    for length in (1, 2, 3):
        for i, seq in enumerate(itertools.product(alpha, repeat=length)):
            if i % spec['parts'] != spec['part']:
                continue
            if deadline_ts and (n & 1023) == 0 and time.time() > deadline_ts:
                col.inconclusive = True
                return
            case = {'rows': rows, 'cols': cols, 'enc': 'latin-1', 'ops': [list(o) for o in seq]}
            n += 1
            try:
                check_case(case, col)
            except Violation as v:
                col.fail(v.key, v.what, case)
                if len(col.failures) >= 4:
                    return
    col.count('exhaustive_cases', n)


def body(case, col):
    with case_watchdog(30, 'C19 sequence'):
        check_case(case, col)


def run_shard(spec, seed, idx, deadline_ts):
    col = Collector()
    if spec['kind'] == 'sweep':
        run_sweep(spec, col, deadline_ts)
    else:
        run_batches(body, cases(), spec['n'], seed * 1000 + idx, col, deadline_ts=deadline_ts)
    return col


def replay(case, spec=None):
    check_case(case)


def _probe_region_end_zero():
    check_case({'rows': 2, 'cols': 2, 'enc': 'latin-1', 'ops': [['put_abs', 1, 1, 'a', False], ['put_abs', 2, 1, 'b', False],
                                                               ['scroll_screen_rows', 1, 0], ['scroll_up'], ['scroll_down']]})


def _probe_get():
    check_case({'rows': 1, 'cols': 1, 'enc': 'latin-1', 'ops': [['put', 'a', False], ['get']]})


def _probe_erase_last_row():
    check_case({'rows': 2, 'cols': 3, 'enc': 'latin-1', 'ops': [['fill', 'x', False], ['cursor_home', 2, 2], ['erase_down']]})
    check_case({'rows': 2, 'cols': 3, 'enc': 'latin-1', 'ops': [['fill', 'x', False], ['cursor_home', 1, 2], ['erase_up']]})


PROBES = [
    ('probe:scroll-region-end-below-1', 'scroll_screen_rows(1, 0) then scrolling resizes the grid', _probe_region_end_zero),
    ('probe:get-returns-none', 'get() does not return the character under the cursor', _probe_get),
    ('probe:erase-down-up-edge-row', 'erase_down on the last line / erase_up on the first line blanks the whole line', _probe_erase_last_row),
]
