"""C04 part B: the EOF/TIMEOUT outcome oracle on the real transports.

pty / fd / socket objects over real kernel objects with interposed syscalls
(E2: a call that would block forever is *detected*, not waited for) and
PopenSpawn over a real child (E3).  The peer writes a generated text, then
either closes/exits (EOF) or stays silent (TIMEOUT at the virtual deadline);
the pattern list holds EOF/TIMEOUT at generated positions.  After the first
EOF three more calls of generated kinds must each report EOF again.
"""
import re

from hypothesis import strategies as st

from ..common import Violation, Collector, run_batches, guard, case_watchdog
from ..engines import simkernel, peers
from ..engines.simkernel import Blocked

import pexpect
from pexpect.exceptions import EOF, TIMEOUT

WORDS = ['ab', 'xyz', 'MATCH', '\r\n', 'é', 'q']


def shards(tier):
    q = tier == 'quick'
    return [{'kind': 'b-sim', 'n': 700 if q else 20000} for _ in range(3)] + [{'kind': 'b-popen', 'n': 25 if q else 500}]


@st.composite
def cases(draw, transports):
    kind = draw(st.sampled_from(transports))
    text_mode = draw(st.booleans())
    words = draw(st.lists(st.sampled_from(WORDS if text_mode else [w for w in WORDS if w != 'é']), min_size=0, max_size=6))
    pieces = draw(st.integers(1, 3))
    ending = draw(st.sampled_from(['eof', 'eof', 'silence'] + (['exit-noclose'] if kind == 'pty' else [])))
    markers = draw(st.sampled_from([[], ['EOF'], ['TIMEOUT'], ['EOF', 'TIMEOUT'], ['TIMEOUT', 'EOF']]))
    pos = draw(st.integers(0, 2))
    pats = ['MATCH', 'nomatch']
    lst = list(pats)
    for i, mk in enumerate(markers):
        lst.insert(min(pos + i, len(lst)), mk)
    return {'kind': kind, 'text_mode': text_mode, 'words': words, 'pieces': pieces, 'ending': ending, 'list': lst,
            'entry': draw(st.sampled_from(['expect', 'expect', 'expect_exact', 'expect_list', 'read', 'readline'])),
            'T': draw(st.sampled_from([0.5, 2.0, 0, -0.25])), 'use_poll': draw(st.booleans()),      # (-0.25: a caller's "time left" that has run out)
            'after': draw(st.lists(st.sampled_from(['expect', 'expect_exact', 'read', 'readline', 'expect_eof']), min_size=3, max_size=3)),
            # all the peer does happens right after the reader's k-th system call (between two specific calls of
            # read_nonblocking: poll, read, liveness check, timed wait) instead of at times
            'pin': draw(st.sampled_from([None, None, 1, 2, 3, 4, 5, 6, 8])),
            # unicode mode: the stream is cut off inside a multi-byte character (its first byte is the last thing written)
            'dangling': draw(st.integers(0, 3)) == 0}


def conv(s, text_mode):
    return s if text_mode else s.encode('utf-8')


def native_list(lst, text_mode, exact):
    out = []
    for p in lst:
        if p == 'EOF':
            out.append(EOF)
        elif p == 'TIMEOUT':
            out.append(TIMEOUT)
        else:
            out.append(conv(p, text_mode))
    return out


def do_call(sp, entry, lst, text_mode, T):
    """Returns (ret, exc_obj)."""
    try:
        if entry == 'expect':
            return sp.expect(native_list(lst, text_mode, False), timeout=T), None
        if entry == 'expect_exact':
            return sp.expect_exact(native_list(lst, text_mode, True), timeout=T), None
        if entry == 'expect_list':
            return sp.expect_list(sp.compile_pattern_list(native_list(lst, text_mode, False)), timeout=T), None
        if entry == 'expect_eof':
            return sp.expect(EOF, timeout=T), None
        sp.timeout = T
        if entry == 'read':
            return sp.read(4), None
        return sp.readline(), None
    except (EOF, TIMEOUT) as e:
        return None, e


def judge(sp, case, ret, exc, received, where, after_eof=False):
    """Outcome oracle for one call.  `received`: all text pending before the outcome."""
    text_mode = case['text_mode']
    entry = case['entry'] if not after_eof else where.split()[0]
    lst = case['list'] if entry in ('expect', 'expect_exact', 'expect_list') else (['EOF'] if entry == 'expect_eof' else [])
    kind = None
    if exc is not None:
        kind = 'EOF' if isinstance(exc, EOF) else 'TIMEOUT'
        cls = EOF if kind == 'EOF' else TIMEOUT
        if type(exc) is not cls:
            raise Violation('wrong-exception-class', '%s: raised %r' % (where, type(exc)))
        if kind in lst:
            raise Violation('listed-marker-raised', '%s: %s is listed at %d but was raised' % (where, kind, lst.index(kind)))
    elif sp.after is EOF or sp.after is TIMEOUT:
        kind = 'EOF' if sp.after is EOF else 'TIMEOUT'
        if entry in ('expect', 'expect_exact', 'expect_list', 'expect_eof'):
            if kind not in lst or ret != lst.index(kind):
                raise Violation('wrong-marker-index', '%s: returned %r for %s in list %r' % (where, ret, kind, lst))
    if kind is not None:
        cls = EOF if kind == 'EOF' else TIMEOUT
        if sp.after is not cls:
            raise Violation('after-not-class', '%s: after is %r at %s' % (where, sp.after, kind))
        if received is not None and sp.before != received:
            raise Violation('before-not-all-pending', '%s: before=%r at %s, everything received and not yet handed back is %r'
                            % (where, sp.before, kind, received))
        if kind == 'EOF' and len(sp.buffer) != 0:
            raise Violation('eof-not-cleared', '%s: buffer %r after EOF' % (where, sp.buffer))
    return kind


def expected_kind(case, text):
    """'match' | 'EOF' | 'TIMEOUT' for the first call."""
    entry = case['entry']
    if entry in ('expect', 'expect_exact', 'expect_list'):
        if 'MATCH' in text:
            return 'match'
    elif entry == 'read':
        if len(text) >= 4:
            return 'match'
    elif entry == 'readline':
        if '\r\n' in text:
            return 'match'
    return 'EOF' if case['ending'] in ('eof', 'exit-noclose') else 'TIMEOUT'


def check_sim(case, col=None):
    text_mode = case['text_mode']
    text = ''.join(case['words'])
    data = text.encode('utf-8')
    n = max(1, case['pieces'])
    step = max(1, (len(data) + n - 1) // n)
    acts = []
    t = 0.0
    for i in range(0, len(data), step):
        acts.append({'t': t, 'op': 'write', 'data': data[i:i + step]})
        t += 0.01
    if case.get('dangling') and text_mode and case['ending'] != 'silence':
        acts.append({'t': t, 'op': 'write', 'data': b'\xc3'})
        t += 0.01
    if case['ending'] == 'eof':
        if case['kind'] == 'pty':
            acts.append({'t': t, 'op': 'exit', 'status': 0})
        acts.append({'t': t, 'op': 'close'})
    elif case['ending'] == 'exit-noclose':
        # the child dies while something else keeps the terminal open: EOF is then detected through the
        # liveness check, at the latest when the timed wait expires
        acts.append({'t': t, 'op': 'exit', 'status': 0})
    if case['T'] <= 0:
        for a in acts:
            a['t'] = 0.0
    if case.get('pin'):
        for a in acts:
            a['t'] = 0.0
            a['at_call'] = case['pin']
    sim = simkernel.Sim(case['kind'], acts)
    sp = None
    feats = set()
    try:
        with sim.installed():
            kw = {'timeout': 3.0}
            if text_mode:
                kw['encoding'] = 'utf-8'
            sp = simkernel.make_reader(sim, use_poll=case['use_poll'], **kw)
            sp.delayafterread = None
            where = '%s on %s (%s, timeout=%r)' % (case['entry'], case['kind'], 'text' if text_mode else 'bytes', case['T'])
            try:
                with guard(where, allow=(EOF, TIMEOUT)):
                    ret, exc = do_call(sp, case['entry'], case['list'], text_mode, case['T'])
            except Blocked as b:
                raise Violation('blocks', '%s: never returns (%s)' % (where, b))
            peer_times = [t_ for (t_, n_, _) in sim.log if n_.startswith('peer:')]
            if case.get('pin') and (sim.call_actions or (case['T'] and peer_times and max(peer_times) >= 0.9 * case['T'])):
                # ... or it acted only when the time limit of the call had (almost) run out: either outcome is right
                # the reader made fewer system calls than the pin asked for: the peer never acted during the call,
                # the generated schedule did not happen
                if col is not None:
                    col.discarded += 1
                return
            want = expected_kind(case, text)
            got_kind = judge(sp, case, ret, exc, None, where)
            if case['T'] <= 0:
                pass            # one poll (or none): how much was readable depends on maxread; only the shape is judged
            else:
                if want == 'match' and got_kind is not None:
                    raise Violation('marker-instead-of-match', '%s: %s although the stream %r satisfies the call' % (where, got_kind, text))
                if want != 'match' and got_kind != want:
                    raise Violation('wrong-outcome', '%s: outcome %s, expected %s for stream %r' % (where, got_kind or 'match', want, text))
                if got_kind is not None:
                    full = conv(text, text_mode)
                    if sp.before != full:
                        raise Violation('before-not-all-pending', '%s: before=%r at %s; the peer wrote %r' % (where, sp.before, got_kind, full))
                    if len(full):
                        feats.add(got_kind + '-with-pending-text')
            if got_kind == 'EOF' or (case['ending'] in ('eof', 'exit-noclose') and case['T'] != 0):
                # drain to EOF if the first call matched, then three more calls
                if got_kind != 'EOF':
                    try:
                        sp.expect(EOF, timeout=3.0)
                    except Blocked as b:
                        raise Violation('blocks', 'expect(EOF) after a match never returns (%s)' % b)
                for e2 in case['after']:
                    w2 = '%s after EOF on %s' % (e2, case['kind'])
                    try:
                        with guard(w2, allow=(EOF, TIMEOUT)):
                            ret, exc = do_call(sp, e2, case['list'], text_mode, 2.0)
                    except Blocked as b:
                        raise Violation('blocks-after-eof', '%s: blocks instead of reporting EOF again (%s)' % (w2, b))
                    k2 = judge(sp, dict(case, entry=e2), ret, exc, conv('', text_mode), w2, after_eof=True)
                    if e2 in ('read', 'readline'):
                        if exc is not None or ret != conv('', text_mode):
                            raise Violation('after-eof', '%s: returned %r / raised %r, expected an empty string' % (w2, ret, exc))
                    elif k2 != 'EOF':
                        raise Violation('after-eof', '%s: outcome %s, expected EOF again' % (w2, k2 or 'match'))
                    feats.add('call-after-EOF')
    finally:
        if sp is not None:
            simkernel.dispose_reader(sim, sp)
        sim.cleanup()
    if col is not None:
        for f in feats:
            col.label(f)
        col.label('B:transport=' + case['kind'])
        col.case(case, bool(feats))


def check_popen(case, col=None):
    text_mode = case['text_mode']
    text = ''.join(case['words']).replace('\r\n', '\n')
    data = text.encode('utf-8')
    acts = [['w', data.hex()]] if data else []
    acts.append(['exit', 0] if case['ending'] == 'eof' else ['hang'])
    kw = {}
    if text_mode:
        kw['encoding'] = 'utf-8'
    child, ps = peers.popen_peer(acts, record=False, wait_ready=False, timeout=10, **kw)
    feats = set()
    try:
        T = 0.3 if case['ending'] != 'eof' else 10
        entry = case['entry'] if case['entry'] != 'readline' else 'expect'
        where = '%s on popen (%s)' % (entry, 'text' if text_mode else 'bytes')
        with guard(where, allow=(EOF, TIMEOUT)):
            ret, exc = do_call(child, entry, case['list'], text_mode, T)
        c2 = dict(case, entry=entry)
        want = expected_kind(c2, text)
        k = judge(child, c2, ret, exc, None, where)
        if want == 'match' and k is not None:
            raise Violation('marker-instead-of-match', '%s: %s although the stream %r satisfies the call' % (where, k, text))
        if want != 'match' and k != want:
            raise Violation('wrong-outcome', '%s: outcome %s, expected %s' % (where, k or 'match', want))
        if k is not None and child.before != conv(text, text_mode):
            raise Violation('before-not-all-pending', '%s: before=%r at %s; the child wrote %r' % (where, child.before, k, text))
        if case['ending'] == 'eof':
            if k != 'EOF':
                child.expect(EOF, timeout=10)
            for e2 in case['after']:
                if e2 == 'readline':
                    e2 = 'read'
                w2 = '%s after EOF on popen' % e2
                with guard(w2, allow=(EOF, TIMEOUT)):
                    ret, exc = do_call(child, e2, case['list'], text_mode, 5)
                k2 = judge(child, dict(case, entry=e2), ret, exc, conv('', text_mode), w2, after_eof=True)
                if e2 == 'read':
                    if exc is not None or ret != conv('', text_mode):
                        raise Violation('after-eof', '%s: returned %r / raised %r' % (w2, ret, exc))
                elif k2 != 'EOF':
                    raise Violation('after-eof', '%s: outcome %s, expected EOF again' % (w2, k2 or 'match'))
                feats.add('call-after-EOF')
    finally:
        peers.reap_popen(child)
        ps.cleanup()
    if col is not None:
        col.label('B:transport=popen')
        col.case(case, bool(feats))


def run_shard(spec, seed, idx, deadline_ts):
    col = Collector()
    if spec['kind'] == 'b-sim':
        def body(case, c):
            with case_watchdog(120, 'C04 part B sim case'):
                check_sim(case, c)
        run_batches(body, cases(['pty', 'pipe', 'socket']), spec['n'], seed * 1000 + idx, col, deadline_ts=deadline_ts)
    else:
        def body(case, c):
            with case_watchdog(120, 'C04 part B popen case'):
                check_popen(case, c)
        run_batches(body, cases(['popen']), spec['n'], seed * 1000 + idx, col, batch=25, deadline_ts=deadline_ts)
    return col


def replay(case, spec=None):
    if case['kind'] == 'popen':
        check_popen(case)
    else:
        check_sim(case)
