"""C04 EOF/TIMEOUT outcomes: index if listed, else that exception; before holds all.

Part A (scripted transport, E1): for every call of a generated history whose
naive-model outcome is "stream ended / time ran out with no occurrence":
  returns the marker's list index if listed, else raises exactly pexpect.EOF /
  pexpect.TIMEOUT (type(e) is, not a subclass or another error from building
  the message); before == all pending text; after is the class; match is the
  class or None; match_index the index or None; after EOF the buffer is empty.
  An occurrence already in the pending text wins even with timeout 0.
  After the first EOF three more calls are appended: each reports EOF again.
Part B (real transports over kernel objects, see vf/engines/simkernel.py):
  the same outcome oracle on pty / fd / socket / popen objects, including the
  object states in which the diagnostic text is built.
"""
from hypothesis import strategies as st

from ..common import Violation, Collector, run_batches, case_watchdog
from ..engines import e1

PROPERTY = 'C04'
RULE = ('Part A: Hypothesis-generated histories over {expect, expect_exact, expect_list, read, readline} with '
        'EOF/TIMEOUT markers at generated list positions (absent/first/middle/last/both), TIMEOUT markers in the '
        'read script, timeout in {default, 5, 0.5, 0}, bytes|utf-8, scripted transport; three extra calls after '
        'the first EOF.  Part B: the same outcome oracle on real pty/fd/socket/popen objects over kernel objects '
        'with generated peer schedules.  Non-trivial: a call that ended in EOF/TIMEOUT with non-empty pending '
        'text, or a timeout-0 call with an occurrence already pending, or a call issued after EOF was reported. '
        'Distinct by hash of the case.')
ASSUMPTIONS = [
    'Part A: scripted transport, virtual clock; ValueError from I/O on a closed object is the documented outcome '
    'and is not generated',
    'the `match` attribute is only required to be the marker class or None (the documentation says both)',
]
BUDGET = {'quick': 200, 'thorough': 1500}


def shards(tier):
    n = 4000 if tier == 'quick' else 100000
    out = [{'kind': 'e1', 'n': n} for _ in range(12)]
    out += partb_shards(tier)
    return out


def partb_shards(tier):
    try:
        from . import c04b
    except ImportError:
        return []
    return c04b.shards(tier)


def check_outcome(st_, m, where, feats):
    """st_: real observation; m: model Outcome of kind eof/timeout."""
    cls = e1.EOF if m.kind == 'eof' else e1.TIMEOUT
    name = 'EOF' if m.kind == 'eof' else 'TIMEOUT'
    is_reader = st_.call['op'] in ('read', 'readline', 'readlines', 'iter')
    if m.index is not None:
        if st_.exc is not None:
            raise Violation('listed-marker-raised', '%s: %s is listed at %d but %s was raised' % (where, name, m.index, st_.exc))
        if not is_reader and st_.ret != m.index:
            raise Violation('wrong-marker-index', '%s: returned %r, %s is listed at %d' % (where, st_.ret, name, m.index))
        if st_.match_index != m.index:
            raise Violation('wrong-marker-index', '%s: match_index %r, %s is listed at %d' % (where, st_.match_index, name, m.index))
    else:
        if st_.exc != name:
            raise Violation('marker-not-raised', '%s: expected %s to be raised, got ret=%r exc=%r' % (where, name, st_.ret, st_.exc))
        if type(st_.exc_obj) is not cls:
            raise Violation('wrong-exception-class', '%s: raised %r, not exactly %s' % (where, type(st_.exc_obj), name))
        if st_.match_index is not None:
            raise Violation('wrong-marker-index', '%s: match_index %r after an unlisted %s' % (where, st_.match_index, name))
    if st_.after is not cls:
        raise Violation('after-not-class', '%s: after is %r, not the %s class' % (where, st_.after, name))
    if st_.match is not None and st_.match is not cls:
        raise Violation('match-attr', '%s: match is %r after %s' % (where, st_.match, name))
    if st_.before != m.before:
        raise Violation('before-not-all-pending', '%s: before=%r but all pending text is %r' % (where, st_.before, m.before))
    if m.kind == 'eof' and len(st_.buffer) != 0:
        raise Violation('eof-not-cleared', '%s: buffer %r after EOF' % (where, st_.buffer))
    if len(m.before) > 0:
        feats.add('%s-with-pending-text' % name)
        return True
    return False


def check_case(case, col=None):
    feats = set()
    nt = False
    seen_eof = False
    for st_, sp, mo in e1.execute(case):
        c = st_.call
        m = st_.model
        if c['op'] == 'setbuf' or m is None:
            continue
        where = 'call %d (%s timeout=%r)' % (st_.i, c['op'], c.get('timeout'))
        real_kind = 'match'
        if st_.exc == 'EOF' or st_.after is e1.EOF:
            real_kind = 'eof'
        elif st_.exc == 'TIMEOUT' or st_.after is e1.TIMEOUT:
            real_kind = 'timeout'
        if c['op'] in ('readlines', 'iter'):
            # composite readers: only the final outcome class is compared
            if seen_eof and st_.exc is not None and st_.exc != 'EOF' and st_.exc != 'TIMEOUT':
                raise Violation('after-eof', '%s after EOF raised %s' % (where, st_.exc))
            if m.kind == 'eof':
                seen_eof = True
            continue
        if m.kind == 'match':
            if real_kind != 'match':
                if m.reads == 0:
                    if c.get('timeout') == 0:
                        feats.add('pending-occurrence-at-timeout-0')
                    raise Violation('pending-match-lost', '%s: %s reported although %r is already pending in %r'
                                    % (where, real_kind, m.after, st_.pending_before))
                raise Violation('marker-instead-of-match', '%s: %s reported; naive search finds %r' % (where, real_kind, m.after))
            if m.reads == 0 and c.get('timeout') == 0:
                feats.add('pending-occurrence-at-timeout-0')
                nt = True
            continue
        if real_kind != m.kind:
            raise Violation('wrong-outcome', '%s: %s, the naive procedure says %s' % (where, real_kind, m.kind))
        nt = check_outcome(st_, m, where, feats) or nt
        if seen_eof:
            feats.add('call-after-EOF')
            nt = True
            if m.kind != 'eof':
                pass
        if m.kind == 'eof':
            seen_eof = True
    if col is not None:
        for f in feats:
            col.label(f)
        col.case(case, nt)


@st.composite
def c04_cases(draw):
    case = draw(e1.cases(ops=['expect', 'expect', 'expect_exact', 'expect_list', 'expect_c', 'read', 'readline',
                              'readlines', 'setbuf', 'set_sws', 'set_maxread'], max_calls=5, max_syms=10))
    # after the history: three more calls, which must report EOF again once EOF has been seen
    text_mode = case['enc'] is not None
    extra = draw(st.lists(e1.call(text_mode, ['expect', 'expect_exact', 'expect_list', 'read', 'readline']),
                          min_size=3, max_size=3))
    case['calls'] = case['calls'] + [{'op': 'read', 'n': -1}] + extra if draw(st.booleans()) else case['calls'] + extra
    return case


def body(case, col):
    with case_watchdog(30, 'C04 history'):
        check_case(case, col)


def run_shard(spec, seed, idx, deadline_ts):
    if spec.get('kind') != 'e1':
        from . import c04b
        return c04b.run_shard(spec, seed, idx, deadline_ts)
    col = Collector()
    run_batches(body, c04_cases(), spec['n'], seed * 1000 + idx, col, deadline_ts=deadline_ts)
    return col


def replay(case, spec=None):
    if spec and spec.get('kind') not in (None, 'e1'):
        from . import c04b
        return c04b.replay(case, spec)
    check_case(case)


def _probe_fresh_object_messages():
    """EOF/TIMEOUT raised on a fresh object (before is None) and after a match, bytes and text."""
    for enc in (None, 'utf-8'):
        for tail in ('eof', 'timeout'):
            case = {'enc': enc, 'stream': b'', 'cuts': [], 'marks': {}, 'tail': tail, 'maxread': 2000, 'sws': None,
                    'calls': [{'op': 'expect', 'pats': [{'re': 'x'}], 'w': -1, 'timeout': -1, 'single': True},
                              {'op': 'expect_exact', 'pats': [{'ex': 'x'}], 'w': -1, 'timeout': 0, 'single': True},
                              {'op': 'read', 'n': 3}, {'op': 'readline'}]}
            check_case(case)


PROBES = [('probe:fresh-object-diagnostics', 'EOF/TIMEOUT on a fresh object (before is None)', _probe_fresh_object_messages)]
