"""C20 A pattern means the same in every accepted form; other objects are rejected.

Oracle (differential/metamorphic).  One scripted stream, one pattern text p
with flags f, every accepted *form* of that pattern run on a fresh object; the
outcome (index | EOF | TIMEOUT, before, after, pending text, span, groups)
must equal the naive model run with the form's *reference* regex:
   string forms (native string, ASCII str given to a bytes-mode object, single
   or one-element list, via expect or compile_pattern_list+expect_list)
                       ==  re.compile(p, DOTALL | (IGNORECASE if ignorecase))
   compiled, same type ==  that compiled pattern's own flags (ignorecase and
                           DOTALL are *not* added)
   compiled, other type==  same text in the native type with the same flags
   exact forms         ==  literal search
Invalid objects (int, float, None/list inside a list, wrong string type,
arbitrary object) at any list position must raise TypeError with no read
consumed and the pending text unchanged.
"""
import re

from hypothesis import strategies as st

from ..common import Violation, Collector, run_batches, guard, case_watchdog
from ..engines import e1, scripted, refmodel
from pexpect.exceptions import EOF, TIMEOUT

PROPERTY = 'C20'
RULE = ('[the empty pattern is among the generated patterns] '
        'Hypothesis-generated (pattern text from a regex grammar with case-sensitive letters, "." vs newline, '
        '^/$ and verbose white space; flags subset of {I,M,X,S,A}; stream; read splitting; ignorecase; bytes|utf-8) '
        'evaluated under up to 12 pattern forms x 3 entry points on fresh objects over the scripted transport, each '
        'compared with the naive model run with the reference regex of that form; plus invalid objects at every '
        'list position.  Non-trivial: a flagged pattern whose flags change the outcome on the generated stream '
        '(evaluated with and without them), or a string pattern whose outcome depends on DOTALL/ignorecase, or a '
        'rejected call made with pending text.  Distinct by hash of the case.')
ASSUMPTIONS = [
    'non-ASCII str patterns given to a bytes-mode object are unspecified and not generated',
    'ignorecase is not applied to expect_exact in the documentation or the code; exact forms run with ignorecase off',
    'scripted transport',
]
BUDGET = {'quick': 200, 'thorough': 1500}

FLAGS = [re.IGNORECASE, re.MULTILINE, re.VERBOSE, re.DOTALL, re.ASCII]
SYMS_B = ['a', 'A', 'b', 'B', '\n', ' ', 'a', 'b', '\r\n']
SYMS_T = SYMS_B + ['é', 'É']


def shards(tier):
    n = 3000 if tier == 'quick' else 60000
    return [{'n': n} for _ in range(16)]


@st.composite
def pat_text(draw, text_mode):
    atoms = ['a', 'A', 'b', 'B', '.', '[ab]', '[^a]', r'\w', r'\W', ' ', r'\n', 'a b', '#a\nb', r'\s']
    if text_mode:
        atoms += ['é', 'É']
    quant = ['', '', '', '+', '*', '?', '{2}']
    kind = draw(st.integers(0, 20))
    if kind == 20:
        return ''               # the empty pattern: matches at once, in every form

    def seq(nmax=3):
        return ''.join(draw(st.sampled_from(atoms)) + draw(st.sampled_from(quant))
                       for _ in range(draw(st.integers(1, nmax))))
    kind = kind % 10
    if kind <= 4:
        p = seq()
    elif kind == 5:
        p = '^' + seq(2)
    elif kind == 6:
        p = seq(2) + '$'
    elif kind == 7:
        p = '(' + seq(2) + ')' + seq(1)
    elif kind == 8:
        p = seq(1) + '.' + seq(1)
    else:
        p = seq(1) + '|' + seq(1)
    return p


@st.composite
def c20_cases(draw):
    text_mode = draw(st.booleans())
    syms = SYMS_T if text_mode else SYMS_B
    s = ''.join(draw(st.lists(st.sampled_from(syms), min_size=0, max_size=10)))
    data = s.encode('utf-8')
    n = len(data)
    cuts = sorted(draw(st.lists(st.integers(0, n), min_size=0, max_size=4)))
    flags = 0
    for f in FLAGS:
        if draw(st.integers(0, 3)) == 0:
            flags |= int(f)
    p = draw(pat_text(text_mode))
    pend = ''.join(draw(st.lists(st.sampled_from(syms), min_size=0, max_size=3)))
    return {'enc': 'utf-8' if text_mode else None, 'stream': data, 'cuts': cuts, 'p': p, 'flags': flags,
            'ignorecase': draw(st.booleans()), 'tail': draw(st.sampled_from(['eof', 'timeout'])),
            'pending': pend, 'exact': ''.join(draw(st.lists(st.sampled_from(syms), min_size=0, max_size=2))),
            'bad': draw(st.sampled_from(['int', 'float', 'none', 'nested', 'nested', 'wrongstr', 'wrongstr', 'object', 'class'])),
            # the text carried by the invalid nested list / wrong-type string (it ends up in the error message)
            'badtext': draw(st.sampled_from(['a', 'a', '100%', '50%)', '%d%s', 'x% (y', '%', '{0}', '{'])),
            'badpos': draw(st.integers(0, 2)), 'w': draw(st.sampled_from([None, None, 3]))}


def _compiles(p, flags, text_mode):
    try:
        if text_mode:
            re.compile(p, flags)
            re.compile(p.encode('utf-8'), flags & ~re.UNICODE)
        else:
            re.compile(p.encode('utf-8'), flags)
            re.compile(p, flags)
        return True
    except (re.error, ValueError):
        return False


def run_form(case, make_arg, entry, ignorecase):
    """Run one call on a fresh object.  Returns an observation tuple."""
    text_mode = case['enc'] is not None
    script = scripted.build_script(case['stream'], case['cuts'], {})
    clock = scripted.VirtualClock()
    kw = dict(maxread=2000, searchwindowsize=case['w'], timeout=30)
    if text_mode:
        kw['encoding'] = 'utf-8'
    sp = e1.Tracing(list(script), tail=case['tail'], clock=clock, **kw)
    sp.ignorecase = ignorecase
    pend = e1.conv(case['pending'], text_mode)
    if pend:
        sp.buffer = pend
    with scripted.virtual_time(clock):
        exc = ret = None
        try:
            with guard('form %s' % entry, allow=(EOF, TIMEOUT, TypeError)):
                arg = make_arg()
                if entry == 'expect':
                    ret = sp.expect(arg)
                elif entry == 'cpl':
                    ret = sp.expect_list(sp.compile_pattern_list(arg))
                else:
                    ret = sp.expect_exact(arg)
        except EOF:
            exc = 'EOF'
        except TIMEOUT:
            exc = 'TIMEOUT'
        except TypeError as e:
            exc = 'TypeError'
    span = groups = None
    if exc is None and hasattr(sp.match, 'span'):
        span = (sp.match.start() - sp.match.end(), )      # length only: window offsets differ legitimately
        groups = sp.match.groups()
    return {'ret': ret, 'exc': exc, 'before': sp.before, 'after': sp.after if exc is None else None,
            'buffer': sp.buffer, 'groups': groups, 'reads': sp.reads, 'sp': sp}


def model_outcome(case, entry_spec):
    text_mode = case['enc'] is not None
    script = scripted.build_script(case['stream'], case['cuts'], {})
    mo = refmodel.Model(list(script), case['tail'], encoding=case['enc'], maxread=2000)
    mo.P = e1.conv(case['pending'], text_mode)
    return mo.expect([entry_spec], case['w'])


def compare(name, obs, m):
    if m.kind == 'match':
        if obs['exc'] is not None or obs['ret'] != 0:
            raise Violation('form-differs:' + name.split('/')[0],
                            'form %s: ret=%r exc=%r; the reference pattern matches %r after %r'
                            % (name, obs['ret'], obs['exc'], m.after, m.before))
        if obs['before'] != m.before or obs['after'] != m.after or obs['buffer'] != m.pending:
            raise Violation('form-differs:' + name.split('/')[0],
                            'form %s: before=%r after=%r buffer=%r; reference before=%r after=%r pending=%r'
                            % (name, obs['before'], obs['after'], obs['buffer'], m.before, m.after, m.pending))
        if m.groups is not None and obs['groups'] != m.groups:
            raise Violation('form-differs:' + name.split('/')[0], 'form %s: groups %r, reference %r' % (name, obs['groups'], m.groups))
    else:
        want = 'EOF' if m.kind == 'eof' else 'TIMEOUT'
        if obs['exc'] != want:
            raise Violation('form-differs:' + name.split('/')[0],
                            'form %s: ret=%r exc=%r before=%r; the reference pattern does not occur (%s expected)'
                            % (name, obs['ret'], obs['exc'], obs['before'], want))
        if obs['before'] != m.before:
            raise Violation('form-differs:' + name.split('/')[0], 'form %s: before=%r at %s, reference %r' % (name, obs['before'], want, m.before))


def toggle_history(case, pattern_arg, ic):
    """expect(p) with ignorecase=ic, then ignorecase is flipped and the same pattern is used again on the same
    object: the string pattern must follow the *current* setting each time."""
    text_mode = case['enc'] is not None
    data = case['stream']
    script = [('d', data), ('t',), ('d', data)]
    clock = scripted.VirtualClock()
    kw = dict(maxread=2000, timeout=30)
    if text_mode:
        kw['encoding'] = 'utf-8'
    sp = e1.Tracing(list(script), tail=case['tail'], clock=clock, **kw)
    mo = refmodel.Model(list(script), case['tail'], encoding=case['enc'], maxread=2000)
    natp = e1.conv(case['p'], text_mode)
    with scripted.virtual_time(clock):
        for step, setting in enumerate((ic, not ic, ic)):
            sp.ignorecase = setting
            ref = ('re', re.compile(natp, re.DOTALL | (re.IGNORECASE if setting else 0)))
            m = mo.expect([ref], None)
            sp.begin_call()
            exc = ret = None
            try:
                with guard('expect() after ignorecase=%r' % setting, allow=(EOF, TIMEOUT)):
                    ret = sp.expect(pattern_arg)
            except EOF:
                exc = 'EOF'
            except TIMEOUT:
                exc = 'TIMEOUT'
            obs = {'ret': ret, 'exc': exc, 'before': sp.before, 'after': sp.after if exc is None else None,
                   'buffer': sp.buffer, 'groups': (sp.match.groups() if exc is None and hasattr(sp.match, 'groups') else None)}
            compare('str-after-ignorecase-change/step%d' % step, obs, m)
            if m.kind == 'eof':
                break


def othertype_flag_history(case):
    """the same pattern text, compiled from the *other* string type, used three times on one object with
    flags f1, f2, f1: each use means what its own pattern object says"""
    text_mode = case['enc'] is not None
    data = case['stream']
    script = [('d', data), ('t',), ('d', data)]
    clock = scripted.VirtualClock()
    kw = dict(maxread=2000, timeout=30)
    if text_mode:
        kw['encoding'] = 'utf-8'
    sp = e1.Tracing(list(script), tail=case['tail'], clock=clock, **kw)
    mo = refmodel.Model(list(script), case['tail'], encoding=case['enc'], maxread=2000)
    natp = e1.conv(case['p'], text_mode)
    otherp = case['p'].encode('utf-8') if text_mode else case['p']
    f1, f2 = re.DOTALL, re.DOTALL | re.IGNORECASE
    if case['flags'] & re.IGNORECASE:
        f1, f2 = f2, f1
    with scripted.virtual_time(clock):
        for step, fl in enumerate((f1, f2, f1)):
            ref = ('re', re.compile(natp, fl))
            m = mo.expect([ref], None)
            sp.begin_call()
            exc = ret = None
            try:
                with guard('expect(compiled other-type pattern, flags %r)' % fl, allow=(EOF, TIMEOUT)):
                    ret = sp.expect(re.compile(otherp, fl))
            except EOF:
                exc = 'EOF'
            except TIMEOUT:
                exc = 'TIMEOUT'
            obs = {'ret': ret, 'exc': exc, 'before': sp.before, 'after': sp.after if exc is None else None,
                   'buffer': sp.buffer, 'groups': (sp.match.groups() if exc is None and hasattr(sp.match, 'groups') else None)}
            compare('othercompiled-same-text-other-flags/step%d' % step, obs, m)
            if m.kind == 'eof':
                break


def check_case(case, col=None):
    text_mode = case['enc'] is not None
    p, f, ic = case['p'], case['flags'], case['ignorecase']
    nat = lambda s: e1.conv(s, text_mode)
    other = lambda s: s.encode('utf-8') if text_mode else s
    nt = False
    feats = set()
    if not _compiles(p, f, text_mode):
        if col is not None:
            col.discarded += 1
        return
    ascii_p = all(ord(ch) < 128 for ch in p)
    # --- string forms
    sflags = re.DOTALL | (re.IGNORECASE if ic else 0)
    ref_s = ('re', re.compile(nat(p), sflags))
    m_s = model_outcome(case, ref_s)
    forms = [('str/expect', lambda: nat(p), 'expect'),
             ('str/list', lambda: [nat(p)], 'expect'),
             ('str/cpl', lambda: nat(p), 'cpl'),
             ('str/cpl-list', lambda: [nat(p)], 'cpl')]
    if not text_mode and ascii_p:
        forms += [('asciistr/expect', lambda: p, 'expect'), ('asciistr/list', lambda: [p], 'expect'),
                  ('asciistr/cpl', lambda: [p], 'cpl')]
    for name, mk, entry in forms:
        compare(name, run_form(case, mk, entry, ic), m_s)
    plain = model_outcome(case, ('re', re.compile(nat(p), 0)))
    if (plain.kind, plain.before, plain.after) != (m_s.kind, m_s.before, m_s.after):
        feats.add('DOTALL/ignorecase-changes-outcome')
        nt = True
    # --- compiled forms, same type: own flags only
    ref_c = ('re', re.compile(nat(p), f))
    m_c = model_outcome(case, ref_c)
    cforms = [('compiled/expect', lambda: re.compile(nat(p), f), 'expect'),
              ('compiled/list', lambda: [re.compile(nat(p), f)], 'expect'),
              ('compiled/cpl', lambda: [re.compile(nat(p), f)], 'cpl')]
    for name, mk, entry in cforms:
        compare(name, run_form(case, mk, entry, ic), m_c)
    if f and (plain.kind, plain.before, plain.after) != (m_c.kind, m_c.before, m_c.after):
        feats.add('flags-change-outcome')
        nt = True
    # --- one list holding the same pattern text twice: compiled with its own flags, and as a string
    for order in (0, 1):
        ents = [ref_c, ref_s] if order == 0 else [ref_s, ref_c]
        script = scripted.build_script(case['stream'], case['cuts'], {})
        mo2 = refmodel.Model(list(script), case['tail'], encoding=case['enc'], maxread=2000)
        mo2.P = e1.conv(case['pending'], text_mode)
        m2 = mo2.expect(ents, case['w'])
        mk = (lambda: [re.compile(nat(p), f), nat(p)]) if order == 0 else (lambda: [nat(p), re.compile(nat(p), f)])
        obs = run_form(case, mk, 'expect', ic)
        if m2.kind == 'match':
            if obs['exc'] is not None or obs['ret'] != m2.index or obs['before'] != m2.before or obs['after'] != m2.after:
                raise Violation('form-differs:same-text-twice', 'list [%s]: ret=%r exc=%r before=%r after=%r; the two entries taken '
                                'separately give index %r before=%r after=%r'
                                % ('compiled, str' if order == 0 else 'str, compiled', obs['ret'], obs['exc'], obs['before'],
                                   obs['after'], m2.index, m2.before, m2.after))
        else:
            want = 'EOF' if m2.kind == 'eof' else 'TIMEOUT'
            if obs['exc'] != want:
                raise Violation('form-differs:same-text-twice', 'list with the same text twice: ret=%r exc=%r, neither entry occurs (%s expected)'
                                % (obs['ret'], obs['exc'], want))
    # --- compiled, other string type: same text, same flags
    if text_mode or ascii_p:
        of = (f & ~re.UNICODE) if text_mode else f
        oforms = [('othercompiled/expect', lambda: re.compile(other(p), of), 'expect'),
                  ('othercompiled/list', lambda: [re.compile(other(p), of)], 'expect'),
                  ('othercompiled/cpl', lambda: [re.compile(other(p), of)], 'cpl')]
        for name, mk, entry in oforms:
            compare(name, run_form(case, mk, entry, ic), m_c)
        othertype_flag_history(case)
    # --- exact forms
    x = case['exact']
    m_x = model_outcome(case, ('ex', nat(x)))
    xforms = [('exact/single', lambda: nat(x), 'exact'), ('exact/list', lambda: [nat(x)], 'exact')]
    if not text_mode and all(ord(ch) < 128 for ch in x):
        xforms.append(('exact/asciistr', lambda: x, 'exact'))
        xforms.append(('exact/asciistr-list', lambda: [x], 'exact'))
    for name, mk, entry in xforms:
        compare(name, run_form(case, mk, entry, False), m_x)
    # --- the same string pattern on one object before and after `ignorecase` is changed
    toggle_history(case, nat(p), ic)
    if not text_mode and ascii_p:
        toggle_history(case, p, ic)
    # ... and the same *list object* used for every call (a module-level PATTERNS constant)
    shared = [nat(p)]
    toggle_history(case, shared, ic)
    if len(shared) != 1 or type(shared[0]) is not type(nat(p)) or shared[0] != nat(p):
        raise Violation('argument-mutated', 'the pattern list handed to expect() is %r afterwards, it was %r' % (shared, [nat(p)]))
    # --- invalid objects
    bt = case.get('badtext', 'a')
    bad = {'int': 7, 'float': 1.5, 'none': None, 'nested': [nat(bt)], 'object': object(),
           'class': ValueError, 'wrongstr': (bt.encode('ascii') if text_mode else None)}[case['bad']]
    if not (case['bad'] == 'wrongstr' and not text_mode):
        lst = [nat('a'), nat('b')]
        lst.insert(min(case['badpos'], len(lst)), bad)
        for entry in ('expect', 'cpl', 'exact'):
            obs = run_form(case, lambda: list(lst), entry, ic)
            if obs['exc'] != 'TypeError':
                raise Violation('invalid-accepted', 'pattern list %r via %s: ret=%r exc=%r, TypeError expected'
                                % (lst, entry, obs['ret'], obs['exc']))
            if obs['reads'] != 0 or obs['buffer'] != nat(case['pending']):
                raise Violation('invalid-consumed', 'pattern list %r via %s was rejected after %d reads; buffer %r, was %r'
                                % (lst, entry, obs['reads'], obs['buffer'], nat(case['pending'])))
            # and the object is still usable: everything is still there
            sp = obs['sp']
            with scripted.virtual_time(sp.clock):
                try:
                    sp.expect(EOF if case['tail'] == 'eof' else TIMEOUT)
                except (EOF, TIMEOUT):
                    raise Violation('invalid-consumed', 'object unusable after a rejected pattern')
            whole = nat(case['pending']) + case['stream'].decode('utf-8') if text_mode else nat(case['pending']) + case['stream']
            if sp.before != whole:
                raise Violation('invalid-consumed', 'after rejecting %r the stream reads %r, expected %r' % (lst, sp.before, whole))
        if case['pending']:
            feats.add('rejected-with-pending-text')
            nt = True
        if case['bad'] not in ('none', 'nested', 'wrongstr'):
            # a single invalid object, not in a list
            for entry in ('expect', 'exact'):
                obs = run_form(case, lambda: bad, entry, ic)
                if obs['exc'] != 'TypeError' or obs['reads'] != 0:
                    raise Violation('invalid-accepted', 'pattern %r via %s: ret=%r exc=%r reads=%d, TypeError expected'
                                    % (bad, entry, obs['ret'], obs['exc'], obs['reads']))
    if col is not None:
        for ft in feats:
            col.label(ft)
        col.label('mode=' + ('text' if text_mode else 'bytes'))
        c2 = dict(case)
        col.case(c2, nt)


def body(case, col):
    with case_watchdog(30, 'C20 case'):
        check_case(case, col)


def run_shard(spec, seed, idx, deadline_ts):
    col = Collector()
    run_batches(body, c20_cases(), spec['n'], seed * 1000 + idx, col, deadline_ts=deadline_ts)
    return col


def replay(case, spec=None):
    check_case(case)


def _probe_flags_lost():
    case = {'enc': None, 'stream': b'A', 'cuts': [], 'p': 'a', 'flags': int(re.IGNORECASE), 'ignorecase': False,
            'tail': 'eof', 'pending': '', 'exact': 'A', 'bad': 'int', 'badpos': 0, 'w': None}
    check_case(case)
    case = dict(case, enc='utf-8')
    check_case(case)


PROBES = [('probe:othertype-compiled-flags', "a compiled regex of the other string type loses its flags "
           "(re.compile('a', re.I) given to a bytes-mode object does not match 'A')", _probe_flags_lost)]
