"""C13 Launch fidelity: the child is started exactly as requested.

Three generated sub-checks:
 split  round trip: a list of non-empty arguments, each rendered segment-wise
        in one of the three documented protections (backslash, single quotes,
        double quotes), joined by whitespace with/without leading/trailing
        whitespace, must split back to exactly that list;
 which  temp-dir PATH layouts (absent dir, exec file, non-exec file, directory
        of that name, symlinks to each, dangling link) with PATH taken from the
        env argument / os.environ / missing / empty, against a reference
        written from the docstring;
 probe  a real child (pty via spawn - string form and list form, with and
        without encoding - and PopenSpawn) reports argv, cwd, environ, window
        size, ECHO flag and SIGHUP disposition; equality with the request.
"""
import json
import os
import re
import shutil
import stat
import sys
import tempfile

from hypothesis import strategies as st

from ..common import Violation, Collector, run_batches, guard, case_watchdog, VERIF

import pexpect
from pexpect import utils as putils

PROPERTY = 'C13'
RULE = ('[launch probes include a bare command name that only the PATH of the env argument leads to, as string / argument list / run()] split: Hypothesis-generated argument lists (1-5 non-empty args over letters, space, tab, newline, both '
        'quotes, backslash, non-ASCII incl. Unicode white space) rendered with a per-segment choice of backslash / '
        'single-quote / double-quote protection, joined by 1-3 white-space characters, optional leading/trailing '
        'white space; oracle split_command_line(rendered) == args.  which: generated PATH layouts in a temp dir vs '
        'a docstring reference.  probe: generated argv/cwd/env/dimensions/echo/ignore_sighup, reported back by a '
        'real child started through spawn (string and list form, bytes and unicode mode) and PopenSpawn, one launch in '
        'four repeated with the very same argument-list and env objects.  '
        'Non-trivial: an argument containing white space, a quote or a backslash; a PATH with >= 2 directories '
        'whose first candidate is not acceptable; a probe with a non-default cwd/env/dimension/echo/sighup '
        'setting.  Distinct by hash of the case.')
ASSUMPTIONS = [
    'double-quote protection is only used for segments without a backslash (the implementation treats a backslash '
    'inside double quotes literally, a shell would not: unspecified, not generated)',
    'an explicit path that is not executable is unspecified by the docstring: only "None or an executable file" is demanded',
    'the probe child is python -S -E peers/probe.py; truth is what the child itself reports',
]
BUDGET = {'quick': 240, 'thorough': 1500}

PY = sys.executable
PROBE = os.path.join(VERIF, 'peers', 'probe.py')


def shards(tier):
    q = tier == 'quick'
    out = [{'kind': 'split', 'n': 3000 if q else 120000} for _ in range(8)]
    out += [{'kind': 'which', 'n': 400 if q else 12000} for _ in range(4)]
    out += [{'kind': 'probe', 'n': 80 if q else 1000} for _ in range(8)]
    return out


# ---------------------------------------------------------------------------
# split_command_line round trip

ALPHA = ['a', 'b', 'Z', '0', '-', '=', '/', '.', ' ', ' ', '\t', '\n', "'", '"', '\\', '\\', 'é', '€', ' ', ' ',
         '\x0b', '\x1c', '#', '$', '*']
SPECIAL = set(["'", '"', '\\'])


def render_segment(seg, style):
    if style == 'esc':
        return ''.join(('\\' + c) if (c in SPECIAL or c.isspace()) else c for c in seg)
    if style == 'sq':
        return "'" + seg + "'"
    return '"' + seg + '"'


@st.composite
def arg_render(draw):
    """one argument and one way to write it"""
    chars = draw(st.lists(st.sampled_from(ALPHA), min_size=1, max_size=6))
    arg = ''.join(chars)
    # split into segments, render each in a style able to express it
    out = ''
    i = 0
    while i < len(arg):
        j = i + draw(st.integers(1, len(arg) - i))
        seg = arg[i:j]
        styles = ['esc']
        if "'" not in seg:
            styles.append('sq')
        if '"' not in seg and '\\' not in seg:
            styles.append('dq')
        out += render_segment(seg, draw(st.sampled_from(styles)))
        i = j
    return arg, out


@st.composite
def split_cases(draw):
    pairs = draw(st.lists(arg_render(), min_size=1, max_size=5))
    ws = st.text(alphabet=' \t\n', min_size=1, max_size=3)
    line = draw(st.sampled_from(['', '', ' ', '\t', ' \n ']))
    for k, (a, r) in enumerate(pairs):
        if k:
            line += draw(ws)
        line += r
    line += draw(st.sampled_from(['', '', ' ', '\n', '\t ']))
    return {'args': [a for a, r in pairs], 'line': line}


def check_split(case, col=None):
    with guard('split_command_line(%r)' % case['line']):
        got = putils.split_command_line(case['line'])
    if got != case['args']:
        lead = case['line'][:1].isspace()
        raise Violation('split-roundtrip' + (':leading-whitespace' if lead and got[:1] == [''] and got[1:] == case['args'] else ''),
                        'split_command_line(%r) == %r, the quoted arguments were %r' % (case['line'], got, case['args']))
    nt = any(any(c in SPECIAL or c.isspace() for c in a) for a in case['args'])
    if col is not None:
        if case['line'][:1].isspace():
            col.label('leading-whitespace')
        if case['line'][-1:].isspace():
            col.label('trailing-whitespace')
        col.case(case, nt)


# ---------------------------------------------------------------------------
# which()

KINDS = ['nodir', 'empty', 'exec', 'nonexec', 'dir', 'link-exec', 'link-nonexec', 'dangling']


@st.composite
def which_cases(draw):
    n = draw(st.integers(0, 4))
    dirs = [draw(st.sampled_from(KINDS)) for _ in range(n)]
    return {'dirs': dirs, 'source': draw(st.sampled_from(['env', 'env', 'environ', 'env-nopath', 'env-emptypath'])),
            'explicit': draw(st.sampled_from([None, None, None, 'exec', 'nonexec', 'dir', 'missing'])),
            'blank_entry': draw(st.integers(0, 5)) == 0}


def _ref_exec(path):
    try:
        real = os.path.realpath(path)
        stt = os.stat(real)
    except OSError:
        return False
    return stat.S_ISREG(stt.st_mode) and os.access(real, os.X_OK)


def check_which(case, col=None):
    root = tempfile.mkdtemp(prefix='c13w_')
    saved_cwd = os.getcwd()
    saved_path = os.environ.get('PATH')
    try:
        os.chdir(root)
        name = 'prog'
        tgt_exec = os.path.join(root, 'target_exec')
        tgt_non = os.path.join(root, 'target_nonexec')
        open(tgt_exec, 'w').write('#!/bin/sh\n')
        os.chmod(tgt_exec, 0o755)
        open(tgt_non, 'w').write('data\n')
        os.chmod(tgt_non, 0o644)
        path_entries = []
        for i, kind in enumerate(case['dirs']):
            d = os.path.join(root, 'd%d' % i)
            path_entries.append(d)
            if kind == 'nodir':
                continue
            os.mkdir(d)
            f = os.path.join(d, name)
            if kind == 'exec':
                open(f, 'w').write('#!/bin/sh\n')
                os.chmod(f, 0o755)
            elif kind == 'nonexec':
                open(f, 'w').write('x')
                os.chmod(f, 0o644)
            elif kind == 'dir':
                os.mkdir(f)
            elif kind == 'link-exec':
                os.symlink(tgt_exec, f)
            elif kind == 'link-nonexec':
                os.symlink(tgt_non, f)
            elif kind == 'dangling':
                os.symlink(os.path.join(root, 'nowhere'), f)
        if case['blank_entry']:
            path_entries.insert(0, '')
        pathstr = os.pathsep.join(path_entries)
        src = case['source']
        if src == 'env':
            env = {'PATH': pathstr, 'OTHER': '1'}
            os.environ['PATH'] = os.path.join(root, 'decoy-not-used')
            eff = pathstr
        elif src == 'environ':
            env = None
            os.environ['PATH'] = pathstr
            eff = pathstr
        elif src == 'env-nopath':
            env = {'OTHER': '1'}
            os.environ['PATH'] = pathstr          # must NOT be used: env was given
            eff = None
        else:
            env = {'PATH': ''}
            os.environ['PATH'] = pathstr
            eff = None
        if not eff:
            eff = os.defpath
        arg = name
        if case['explicit']:
            arg = {'exec': tgt_exec, 'nonexec': tgt_non, 'dir': root, 'missing': os.path.join(root, 'zz', 'prog')}[case['explicit']]
        with guard('which(%r, env=%r)' % (arg, env)):
            got = putils.which(arg, env=env)
        if case['explicit']:
            if case['explicit'] == 'exec':
                if got != arg:
                    raise Violation('which-explicit', 'which(%r) returned %r for an executable explicit path' % (arg, got))
            elif got is not None and not _ref_exec(got):
                raise Violation('which-explicit', 'which(%r) returned %r, which is not an executable file' % (arg, got))
        else:
            want = None
            for d in eff.split(os.pathsep):
                cand = os.path.join(d, name)
                if _ref_exec(cand):
                    want = cand
                    break
            if got != want:
                raise Violation('which-path', 'which(%r) with PATH from %s (%r) and layout %r returned %r, the first '
                                'acceptable candidate is %r' % (name, src, eff, case['dirs'], got, want))
        nt = len(case['dirs']) >= 2 and case['dirs'][0] not in ('exec', 'link-exec')
        if col is not None:
            col.label('which:' + src)
            col.case(case, nt)
    finally:
        if saved_path is None:
            os.environ.pop('PATH', None)
        else:
            os.environ['PATH'] = saved_path
        os.chdir(saved_cwd)
        shutil.rmtree(root, ignore_errors=True)


# ---------------------------------------------------------------------------
# probe child

PROBE_ALPHA = ['a', 'b', 'Z', '0', '-', ' ', ' ', '\t', "'", '"', '\\', 'é', '€', '*', '$', '\xa0']


@st.composite
def probe_cases(draw):
    args = draw(st.lists(st.text(alphabet=PROBE_ALPHA, min_size=1, max_size=5), min_size=0, max_size=4))
    form = draw(st.sampled_from(['string', 'string', 'list', 'popen', 'popen-string', 'bare', 'run', 'envpath']))
    enc = draw(st.sampled_from([None, None, 'utf-8', 'latin-1', 'iso2022_jp']))
    if enc == 'latin-1':
        args = [a.replace('€', 'é') for a in args]
    if enc == 'iso2022_jp':
        # a codec with shift states: every argument is a text of its own (it starts and ends in the ASCII state)
        if form in ('popen', 'popen-string', 'bare'):
            enc = None
        else:
            args = [a.replace('€', '\u3042').replace('é', '\u3044').replace('\xa0', '\u3042') for a in args]
    env = None
    if draw(st.booleans()):
        env = {draw(st.sampled_from(['A', 'VAR_X', 'LANG', 'é'])): draw(st.text(alphabet=PROBE_ALPHA, max_size=6))
               for _ in range(draw(st.integers(0, 3)))}
    return {'args': args, 'form': form, 'enc': enc, 'env': env,
            'cwd': draw(st.sampled_from([None, 'plain', 'with space', 'dîr€', "q'uote"])),
            'dims': draw(st.sampled_from([None, None, [1, 1], [24, 80], [50, 132], [3, 500], [200, 7]])),
            'echo': draw(st.booleans()), 'sighup': draw(st.booleans()),
            'styles': draw(st.lists(st.sampled_from(['esc', 'sq', 'dq']), min_size=6, max_size=6)),
            # the same request objects (argument list, env mapping) are used for a second launch
            'relaunch': draw(st.integers(0, 3)) == 0,
            # a preexec_fn of the caller's own next to the other launch options (pty launches)
            'preexec': draw(st.booleans())}


def _render_arg(a, style):
    if style == 'sq' and "'" in a:
        style = 'esc'
    if style == 'dq' and ('"' in a or '\\' in a):
        style = 'esc'
    return render_segment(a, style)


def check_bare(case, col=None):
    """A bare command name (found through the PATH search) with an env argument that may lack PATH: the child's
    environment is exactly the requested one and the caller's mapping is left alone."""
    import copy
    env = case['env']
    if env is None or any('\n' in v or '\r' in v for v in env.values()):
        env = {'ONLY': 'this'}
    env = {k: v for k, v in env.items() if k.isascii() and k != 'PATH'}
    if case['dims']:
        env['PATH'] = ''            # an empty PATH is also "no usable PATH"
    before = copy.deepcopy(env)
    with guard('spawn(bare command name, env without PATH)'):
        child = pexpect.spawn('env', env=env, timeout=20, echo=False)
        child.expect(pexpect.EOF)
        out = child.before.decode('utf-8', 'replace')
        child.close()
    got = {}
    for line in out.replace('\r\n', '\n').split('\n'):
        if '=' in line:
            k, v = line.split('=', 1)
            got[k] = v
    if env != before:
        raise Violation('probe-env', 'spawn() changed the env mapping it was given: %r -> %r' % (before, env))
    if got != before:
        raise Violation('probe-env', 'env(1) started by bare name with env=%r reports %r' % (before, got))
    if col is not None:
        col.label('probe:bare')
        col.case(case, True)


def _set_umask():
    os.umask(0o027)


def check_envpath(case, col=None):
    """A bare command name that only the PATH of the env argument leads to (the caller's own PATH has no such
    program, or another one of the same name when 'echo' is set): every launch form starts the program found through
    the env argument's PATH, with the arguments as given."""
    import stat
    root = tempfile.mkdtemp(prefix='c13e_')
    saved_path = os.environ.get('PATH')
    try:
        for d, word in (('right', 'RIGHT'), ('wrong', 'WRONG')):
            os.mkdir(os.path.join(root, d))
            fn = os.path.join(root, d, 'c13prog')
            with open(fn, 'w') as f:
                f.write('#!/bin/sh\nprintf "%s" "' + word + '"\nfor a in "$@"; do printf "[%s]" "$a"; done\necho\n')
            os.chmod(fn, os.stat(fn).st_mode | stat.S_IXUSR | stat.S_IXGRP | stat.S_IXOTH)
        env = {'PATH': os.path.join(root, 'right') + os.pathsep + '/usr/bin' + os.pathsep + '/bin', 'LANG': 'C'}
        shadow = bool(case['echo'])
        if shadow:
            os.environ['PATH'] = os.path.join(root, 'wrong') + os.pathsep + (saved_path or '')
        how = ['string', 'list', 'run', 'list-noargs'][len(case['args']) % 4]
        with guard('launch by bare name through the PATH of env (%s)' % how, allow=()):
            if how == 'run':
                out = pexpect.run('c13prog x y', env=env, timeout=20)
            else:
                if how == 'string':
                    child = pexpect.spawn('c13prog x y', env=env, timeout=20)
                elif how == 'list':
                    child = pexpect.spawn('c13prog', ['x', 'y'], env=env, timeout=20)
                else:
                    child = pexpect.spawn('c13prog', [], env=env, timeout=20)
                child.expect(pexpect.EOF)
                out = child.before
                child.close()
        want = b'RIGHT' + (b'' if how == 'list-noargs' else b'[x][y]')
        if out.strip() != want:
            raise Violation('envpath:' + how, 'c13prog launched as %s with env PATH=%r%s printed %r, expected %r'
                            % (how, env['PATH'], ' (another c13prog first on os.environ PATH)' if shadow else '', out.strip()[:80], want))
    finally:
        if saved_path is None:
            os.environ.pop('PATH', None)
        else:
            os.environ['PATH'] = saved_path
        shutil.rmtree(root, ignore_errors=True)
    if col is not None:
        col.label('probe:envpath:' + how)
        col.case(case, True)


def check_probe(case, col=None):
    if case['form'] == 'bare':
        return check_bare(case, col)
    if case['form'] == 'envpath':
        return check_envpath(case, col)
    from pexpect.popen_spawn import PopenSpawn
    root = tempfile.mkdtemp(prefix='c13p_')
    saved_hup = None
    try:
        cwd = None
        if case['cwd']:
            cwd = os.path.join(root, case['cwd'])
            os.mkdir(cwd)
        args = list(case['args'])
        enc = case['enc']
        env = case['env']
        full = [PY, '-S', '-E', PROBE] + args
        arglist = ['-S', '-E', PROBE] + args
        kw = {}
        if enc:
            kw['encoding'] = enc
        launches = 2 if case.get('relaunch') else 1
        for attempt in range(launches):
            with guard('launch %s' % case['form']):
                if case['form'] == 'popen-string':
                    # one command string (split by shlex in PopenSpawn), padded with white space at both ends
                    line = ' '.join(_render_arg(a, s_) for a, s_ in zip(full, case['styles'] + ['esc'] * 10))
                    pad = ['', ' ', '\t ', '  '][len(args) % 4]
                    child = PopenSpawn(pad + line + pad, cwd=cwd, env=env, timeout=20, **kw)
                elif case['form'] in ('popen', 'popen-string'):
                    child = PopenSpawn(full, cwd=cwd, env=env, timeout=20, **kw)
                else:
                    pk = dict(cwd=cwd, env=env, echo=case['echo'], ignore_sighup=case['sighup'], timeout=20, **kw)
                    if case['dims']:
                        pk['dimensions'] = tuple(case['dims'])
                    if case.get('preexec'):
                        pk['preexec_fn'] = _set_umask
                    if case['form'] == 'run':
                        # through run(): the same launch parameters travel as run()'s own arguments and **kwargs,
                        # with either of its two ways of passing the timeout on
                        line = ' '.join(_render_arg(a, s) for a, s in zip(full, case['styles'] + ['esc'] * 10))
                        pk.pop('timeout')
                        out = pexpect.run(line, timeout=(-1 if len(args) % 2 else 20), **pk)
                        child = None
                    elif case['form'] == 'list':
                        child = pexpect.spawn(PY, arglist, **pk)
                    else:
                        line = ' '.join(_render_arg(a, s) for a, s in zip(full, case['styles'] + ['esc'] * 10))
                        child = pexpect.spawn(line, **pk)
                if child is not None:
                    child.expect(pexpect.EOF)
                    out = child.before
                    if case['form'] not in ('popen', 'popen-string'):
                        child.close()
                    else:
                        child.wait()
            if isinstance(out, bytes):
                out = out.decode('latin-1')
            m = re.search(r'<<<([0-9a-f]*)>>>', out)
            if not m:
                raise Violation('probe-no-report', 'the child did not report%s (output %r)' % (' at the second launch with the same objects' if attempt else '', out[-200:]))
            rep = json.loads(bytes.fromhex(m.group(1)).decode('utf-8'))
            got_argv = [bytes.fromhex(h) for h in rep['argv']]
            if enc and case['form'] not in ('popen', 'popen-string'):
                want_argv = [a.encode(enc) for a in args]
            else:
                want_argv = [os.fsencode(a) for a in args]
            if got_argv != want_argv:
                raise Violation('probe-argv', '%s form (encoding %r)%s: the child received %r, requested %r'
                                % (case['form'], enc, ', second launch with the same argument list and env objects' if attempt else '',
                                   got_argv, want_argv))
            got_cwd = bytes.fromhex(rep['cwd'])
            want_cwd = os.fsencode(os.path.realpath(cwd if cwd else os.getcwd()))
            if got_cwd != want_cwd:
                raise Violation('probe-cwd', 'child cwd %r, requested %r' % (got_cwd, want_cwd))
            got_env = {bytes.fromhex(k): bytes.fromhex(v) for k, v in rep['env'].items()}
            if env is not None:
                want_env = {os.fsencode(k): os.fsencode(v) for k, v in env.items()}
            else:
                want_env = {os.fsencode(k): os.fsencode(v) for k, v in os.environ.items()}
            for junk in (b'LC_CTYPE',):       # python may add LC_CTYPE in C locale coercion
                if junk not in want_env:
                    got_env.pop(junk, None)
            if got_env != want_env:
                # names only: the values of inherited variables do not belong in reports
                only_child = set(got_env.items()) - set(want_env.items())
                only_req = set(want_env.items()) - set(got_env.items())
                raise Violation('probe-env', 'child environment differs: %d variable(s) only in (or different in) the child %r, '
                                '%d only in (or different in) the request %r'
                                % (len(only_child), sorted(k for k, v in only_child)[:4],
                                   len(only_req), sorted(k for k, v in only_req)[:4]))
            if case['form'] not in ('popen', 'popen-string'):
                want_dims = case['dims'] or [24, 80]
                if rep['winsize'] != list(want_dims):
                    raise Violation('probe-winsize', 'child window size %r, requested %r' % (rep['winsize'], want_dims))
                if rep['echo'] != case['echo']:
                    raise Violation('probe-echo', 'child ECHO flag %r, requested %r' % (rep['echo'], case['echo']))
                if rep['sighup_ignored'] != case['sighup']:
                    raise Violation('probe-sighup', 'child ignores SIGHUP: %r, requested %r' % (rep['sighup_ignored'], case['sighup']))
        nt = bool(case['cwd'] or case['env'] is not None or case['dims'] or not case['echo'] or case['sighup']
                  or any(any(c in ' \t\'"\\' for c in a) for a in args))
        if col is not None:
            col.label('probe:' + case['form'])
            if launches == 2:
                col.label('probe:relaunch-with-same-objects')
            col.case(case, nt)
    finally:
        shutil.rmtree(root, ignore_errors=True)


# ---------------------------------------------------------------------------

def run_shard(spec, seed, idx, deadline_ts):
    col = Collector()
    kind = spec['kind']
    if kind == 'split':
        run_batches(lambda c, k: check_split(c, k), split_cases(), spec['n'], seed * 1000 + idx, col, deadline_ts=deadline_ts)
    elif kind == 'which':
        run_batches(lambda c, k: check_which(c, k), which_cases(), spec['n'], seed * 1000 + idx, col, deadline_ts=deadline_ts)
    else:
        def body(c, k):
            with case_watchdog(120, 'C13 probe child'):
                check_probe(c, k)
        run_batches(body, probe_cases(), spec['n'], seed * 1000 + idx, col, batch=50, deadline_ts=deadline_ts)
    return col


def replay(case, spec=None):
    kind = (spec or {}).get('kind') or ('split' if 'line' in case else 'which' if 'dirs' in case else 'probe')
    {'split': check_split, 'which': check_which, 'probe': check_probe}[kind](case)


def _probe_leading_ws():
    check_split({'args': ['a'], 'line': ' a'})
    check_split({'args': ['ls', '-l'], 'line': '\t ls  -l\n'})


PROBES = [('probe:leading-whitespace', "leading white space yields an empty first argument (' a' -> ['', 'a'])", _probe_leading_ws)]
