"""C07 Unicode mode decodes the stream as a whole, however reads split it.

Round-trip oracle.  A generated text is encoded (utf-8, utf-8-sig, utf-16,
utf-16-le, utf-32, latin-1, cp437, shift_jis, gb18030; for the replace/ignore
policies interior garbage bytes are inserted) and pushed through a real
transport with generated read boundaries:
  pipe / socketpair via fdspawn, SocketSpawn   read_nonblocking(size=k_i)
                                               or maxread=k with expect(EOF)
  pty child, Popen child                       peer writes piece by piece,
                                               maxread=1 on our side
  asyncio                                      fdspawn on a pipe, one piece
                                               per event-loop turn
The text delivered (returned values / before, and what logfile_read saw) must
equal feeding the whole byte stream in one piece to a fresh incremental
decoder of that codec and error policy; every piece is str.  In bytes mode
the bytes come through unchanged.
"""
import asyncio
import codecs
import os
import socket

from hypothesis import strategies as st

from ..common import Violation, Collector, run_batches, guard, case_watchdog
from ..engines import peers

import pexpect
from pexpect import fdpexpect, socket_pexpect
from pexpect.exceptions import EOF, TIMEOUT

PROPERTY = 'C07'
RULE = ('Hypothesis-generated text over {ASCII, 2-/3-/4-byte characters, combining marks, astral characters} x 9 '
        'codecs x {strict, replace, ignore} (garbage bytes only with replace/ignore) x up to 3 generated cut points '
        '(or maxread 1..3, i.e. every offset) x transports {pipe-fd, socketpair-fd, SocketSpawn, pty child, Popen '
        'child (read while it runs or after it has exited), asyncio}; thorough adds an exhaustive sweep of every 1- and 2-cut splitting of streams <= 24 bytes. '
        'Non-trivial: at least one read boundary strictly inside a multi-byte character (known from the generated '
        'offsets).  Distinct by hash of the case.')
ASSUMPTIONS = [
    'streams do not end inside a character (the reference decoder must have an empty pending state)',
    "cases for which CPython's own incremental decoder is chunk-dependent (utf-16/utf-32 garbage with "
    'replace/ignore) are discarded and counted, so that only pexpect is judged',
    'pty children can only be started with an ASCII-compatible codec (spawn encodes argv with the instance '
    'encoding): utf-8-sig/utf-16/utf-32 are not exercised on the pty transport',
    'Popen/pty read boundaries are those the kernel and the reader thread produce from piece-wise writes with '
    'maxread 1..3 or 2000 on our side; the oracle does not depend on where they fall',
]
BUDGET = {'quick': 240, 'thorough': 1500}

CODECS = ['utf-8', 'utf-8', 'utf-8-sig', 'utf-16', 'utf-16-le', 'utf-32', 'latin-1', 'cp437', 'shift_jis', 'gb18030']
PTY_CODECS = ['utf-8', 'utf-8', 'latin-1', 'cp437', 'shift_jis', 'gb18030']
CHARS = ['a', 'b', ' ', '\n', 'é', 'ß', '€', '語', '\U0001d11e', '\U0001f600', 'é', 'ｱ', '\xff']


def shards(tier):
    q = tier == 'quick'
    out = [{'kind': 'fd', 'n': 3000 if q else 60000} for _ in range(8)]
    out += [{'kind': 'async', 'n': 600 if q else 8000} for _ in range(2)]
    out += [{'kind': 'popen', 'n': 100 if q else 1200} for _ in range(3)]
    out += [{'kind': 'pty', 'n': 250 if q else 2500} for _ in range(3)]
    if not q:
        out = [{'kind': 'sweep', 'part': k, 'parts': 4} for k in range(4)] + out
    return out


@st.composite
def cases(draw, transports):
    # pexpect.spawn encodes its argv with the instance encoding, so a pty child can only be started with an
    # ASCII-compatible codec without BOM
    enc = draw(st.sampled_from(PTY_CODECS if transports == ['pty'] else CODECS))
    errors = draw(st.sampled_from(['strict', 'strict', 'replace', 'ignore']))
    chars = draw(st.lists(st.sampled_from(CHARS), min_size=0, max_size=12))
    text = ''.join(chars)
    try:
        data = text.encode(enc)
    except UnicodeEncodeError:
        data = text.encode(enc, 'replace')
    junked = False
    if errors != 'strict' and draw(st.booleans()):
        pos = draw(st.integers(0, len(data)))
        junk = draw(st.sampled_from([b'\xff', b'\x80', b'\xc3', b'\xe2\x82', b'\xf0\x9f', b'\x00\xd8', b'\xfe\xff']))
        data = data[:pos] + junk + data[pos:]
        junked = True
    n = len(data)
    # undecodable bytes matter most when every offset is a read boundary
    mode = draw(st.sampled_from(['sizes', 'maxread', 'maxread'] if junked else ['sizes', 'sizes', 'maxread']))
    cuts = sorted(draw(st.lists(st.integers(0, n), min_size=0, max_size=3)))
    return {'enc': enc, 'errors': errors, 'data': data, 'mode': mode, 'cuts': cuts,
            'maxread': draw(st.sampled_from([1, 1, 2, 3])), 'transport': draw(st.sampled_from(transports)),
            'bytes_mode': draw(st.integers(0, 9)) == 0,
            # pty: a control character is sent after every read (the send side must not touch the read decoder)
            'interleave': draw(st.booleans()),
            # the pending text is re-assigned (`child.buffer = child.buffer`, the idiom for editing or discarding
            # it) after every read: the text buffer is not the byte stream, the decoder state must survive
            'setbuf': draw(st.booleans()),
            # popen: the child has written everything and is gone before the first read (its pieces wait in the
            # reader thread's queue): the end of the process is not the end of the stream
            'after_exit': draw(st.booleans())}


def reference(case):
    """Returns (whole_text, char_spans) or None if the case is not usable."""
    if case['bytes_mode']:
        return case['data'], []
    try:
        dec = codecs.getincrementaldecoder(case['enc'])(case['errors'])
        whole = dec.decode(case['data'], False)
        if dec.getstate()[0]:
            return None                      # ends inside a character
    except UnicodeError:
        return None                          # strict + invalid: a legitimate rejection
    # the reference decoder itself must be chunk-independent on this input
    pts = sorted(set([0] + [c for c in case['cuts']] + [len(case['data'])]))
    dec2 = codecs.getincrementaldecoder(case['enc'])(case['errors'])
    try:
        pieces = ''.join(dec2.decode(case['data'][pts[i]:pts[i + 1]], False) for i in range(len(pts) - 1))
    except UnicodeError:
        return None
    if pieces != whole or dec2.getstate()[0]:
        return None
    if case['mode'] == 'maxread' or case['transport'] in ('popen', 'pty', 'async'):
        dec3 = codecs.getincrementaldecoder(case['enc'])(case['errors'])
        try:
            bytewise = ''.join(dec3.decode(case['data'][i:i + 1], False) for i in range(len(case['data'])))
        except UnicodeError:
            return None
        if bytewise != whole:
            return None
    return whole, None


def multibyte_cut(case):
    """True if some generated boundary falls strictly inside a character."""
    if case['bytes_mode']:
        return False
    data = case['data']
    if case['mode'] == 'maxread':
        k = case['maxread']
        cuts = list(range(k, len(data), k))
    else:
        cuts = [c for c in case['cuts'] if 0 < c < len(data)]
    dec = codecs.getincrementaldecoder(case['enc'])(case['errors'])
    for c in cuts:
        dec.reset()
        try:
            dec.decode(data[:c], False)
        except UnicodeError:
            return False
        if dec.getstate()[0]:
            return True
    return False


def _mk_kwargs(case):
    kw = {'timeout': 10}
    if not case['bytes_mode']:
        kw['encoding'] = case['enc']
        kw['codec_errors'] = case['errors']
    return kw


def _read_sizes(sp, case, T):
    """read_nonblocking(size=k_i) along the generated cuts, then to EOF."""
    n = len(case['data'])
    pts = sorted(set([0] + [c for c in case['cuts'] if 0 < c < n] + [n]))
    out = []
    for i in range(len(pts) - 1):
        k = pts[i + 1] - pts[i]
        got = sp.read_nonblocking(size=k, timeout=10)
        if not isinstance(got, T):
            raise Violation('type', 'read_nonblocking returned %r in %s mode' % (type(got), T.__name__))
        out.append(got)
        if case.get('setbuf'):
            sp.buffer = sp.buffer
    try:
        extra = sp.read_nonblocking(size=100, timeout=10)
        raise Violation('extra-data', 'read after the whole stream returned %r instead of EOF' % (extra,))
    except EOF:
        pass
    return T().join(out)


def run_fdlike(case, T):
    tr = case['transport']
    log = peers.RecLog()
    data = case['data']
    if tr == 'pipe':
        r, w = os.pipe()
        os.write(w, data)
        os.close(w)
        sp = fdpexpect.fdspawn(r, **_mk_kwargs(case))
        closer = lambda: os.close(r)
    else:
        a, b = socket.socketpair()
        b.sendall(data)
        b.close()
        if tr == 'sockfd':
            sp = fdpexpect.fdspawn(a.fileno(), **_mk_kwargs(case))
        else:
            sp = socket_pexpect.SocketSpawn(a, **_mk_kwargs(case))
        closer = a.close
    sp.logfile_read = log
    try:
        with guard('%s transport, %s' % (tr, case['mode']), allow=(EOF, TIMEOUT)):
            if case['mode'] == 'sizes':
                got = _read_sizes(sp, case, T)
            else:
                sp.maxread = case['maxread']
                sp.expect(EOF)
                got = sp.before
    except TIMEOUT:
        raise Violation('timeout-on-closed-stream', '%s: TIMEOUT reading a pre-filled, closed stream' % tr)
    finally:
        closer()
    return got, log


def run_popen(case, T):
    data = case['data']
    n = len(data)
    pts = sorted(set([0] + [c for c in case['cuts'] if 0 < c < n] + [n]))
    actions = []
    for i in range(len(pts) - 1):
        actions.append(['w', data[pts[i]:pts[i + 1]].hex()])
        actions.append(['s', 0.002])
    log = peers.RecLog()
    child, ps = peers.popen_peer(actions, record=False, wait_ready=False,
                                 maxread=(case['maxread'] if case['mode'] == 'maxread' else 2000), **_mk_kwargs(case))
    try:
        child.logfile_read = log
        if case.get('after_exit'):
            child.proc.wait()
        with guard('popen transport', allow=(EOF, TIMEOUT)):
            child.expect(EOF)
        return child.before, log
    except TIMEOUT:
        raise Violation('timeout-on-closed-stream', 'popen: TIMEOUT although the child exited')
    finally:
        peers.reap_popen(child)
        ps.cleanup()


def run_pty(case, T):
    data = case['data']
    n = len(data)
    pts = sorted(set([0] + [c for c in case['cuts'] if 0 < c < n] + [n]))
    actions = []
    for i in range(len(pts) - 1):
        actions.append(['w', data[pts[i]:pts[i + 1]].hex()])
        actions.append(['s', 0.002])
    log = peers.RecLog()
    inter = bool(case.get('interleave'))
    child, ps = peers.pty_peer(actions, raw=True, record=False, wait_ready=inter,
                               maxread=(case['maxread'] if case['mode'] == 'maxread' else 2000), **_mk_kwargs(case))
    try:
        child.logfile_read = log
        with guard('pty transport', allow=(EOF, TIMEOUT)):
            if inter:
                # the child is in raw mode (it said so) and never reads: what is sent has no effect on its output
                got = child.buffer            # what arrived in the same read as the readiness token
                if len(got):                  # ... before the log was attached
                    log.writes.insert(0, got)
                    log.flushed.insert(0, True)
                try:
                    while True:
                        got += child.read_nonblocking(child.maxread, 10)
                        child.sendcontrol('g')
                        if case.get('setbuf'):
                            child.buffer = child.string_type()
                except EOF:
                    pass
                return got, log
            child.expect(EOF)
        return child.before, log
    except TIMEOUT:
        raise Violation('timeout-on-closed-stream', 'pty: TIMEOUT although the child exited')
    finally:
        peers.reap(child)
        ps.cleanup()


def run_async(case, T):
    data = case['data']
    n = len(data)
    pts = sorted(set([0] + [c for c in case['cuts'] if 0 < c < n] + [n]))
    pieces = [data[pts[i]:pts[i + 1]] for i in range(len(pts) - 1)]
    if case['mode'] == 'maxread':
        pieces = [data[i:i + case['maxread']] for i in range(0, n, case['maxread'])]
    log = peers.RecLog()
    r, w = os.pipe()
    sp = fdpexpect.fdspawn(r, **_mk_kwargs(case))
    sp.logfile_read = log
    result = {}

    async def go():
        async def writer():
            for p in pieces:
                if p:
                    os.write(w, p)
                await asyncio.sleep(0)
                await asyncio.sleep(0)
            os.close(w)
        wt = asyncio.ensure_future(writer())
        try:
            if case['maxread'] == 1:
                # many awaited calls, each finishing after one character: the decoder state has to survive from
                # one call to the next (a character may be split between the data of two calls)
                got = T()
                dot = '.' if T is str else b'.'
                while True:
                    i = await sp.expect([dot, EOF], async_=True, timeout=10)
                    got += sp.before
                    if i == 1:
                        break
                    got += sp.after
                result['got'] = got
            else:
                await sp.expect(EOF, async_=True, timeout=10)
                result['got'] = sp.before
        finally:
            await wt
    loop = asyncio.new_event_loop()
    try:
        with guard('asyncio path', allow=(EOF, TIMEOUT)):
            loop.run_until_complete(go())
        return result['got'], log
    except TIMEOUT:
        raise Violation('timeout-on-closed-stream', 'async: TIMEOUT on a closed pipe')
    finally:
        try:
            if sp.async_pw_transport:
                sp.async_pw_transport[1].close()
            loop.run_until_complete(asyncio.sleep(0))
        except Exception:
            pass
        loop.close()
        for fd in (r, w):
            try:
                os.close(fd)
            except OSError:
                pass


def check_case(case, col=None):
    ref = reference(case)
    if ref is None:
        if col is not None:
            col.discarded += 1
        return
    whole = ref[0]
    T = bytes if case['bytes_mode'] else str
    tr = case['transport']
    if tr in ('pipe', 'sockfd', 'socket'):
        got, log = run_fdlike(case, T)
    elif tr == 'popen':
        got, log = run_popen(case, T)
    elif tr == 'pty':
        got, log = run_pty(case, T)
    else:
        got, log = run_async(case, T)
    if not isinstance(got, T):
        raise Violation('type', '%s: delivered %r in %s mode' % (tr, type(got), T.__name__))
    if got != whole:
        raise Violation('decoding:' + ('bytes' if case['bytes_mode'] else 'text'),
                        '%s transport, codec %s/%s, stream %r cut at %r (%s): delivered %r, the whole stream decodes to %r'
                        % (tr, case['enc'], case['errors'], case['data'], case['cuts'], case['mode'], got, whole))
    for wr in log.writes:
        if not isinstance(wr, T):
            raise Violation('log-type', '%s: logfile_read got %r in %s mode' % (tr, type(wr), T.__name__))
    logged = log.joined(T())
    if logged != whole:
        raise Violation('log-differs', '%s transport: logfile_read saw %r, the stream decodes to %r' % (tr, logged, whole))
    nt = multibyte_cut(case)
    if col is not None:
        col.label('transport=' + tr)
        col.label('codec=' + case['enc'])
        col.label('errors=' + case['errors'])
        if nt:
            col.label('cut-inside-character')
        col.case(case, nt)


def run_sweep(spec, col, deadline_ts):
    """Exhaustive: every 1- and 2-cut splitting of a fixed set of short
    streams on the pipe transport, every codec, strict policy."""
    import itertools
    import time
    texts = ['aé€\U0001d11eb', '語éｱ', '\U0001f600é', 'ßa€']
    n = 0
    jobs = []
    for enc in sorted(set(CODECS)):
        for t in texts:
            try:
                data = t.encode(enc)
            except UnicodeEncodeError:
                continue
            if len(data) > 24:
                continue
            jobs.append((enc, data))
    for j, (enc, data) in enumerate(jobs):
        if j % spec['parts'] != spec['part']:
            continue
        L = len(data)
        for cuts in itertools.chain(((a,) for a in range(1, L)), itertools.combinations(range(1, L), 2)):
            for tr in ('pipe', 'socket'):
                if deadline_ts and time.time() > deadline_ts:
                    col.inconclusive = True
                    col.count('exhaustive_cases_partial', n)
                    return
                case = {'enc': enc, 'errors': 'strict', 'data': data, 'mode': 'sizes', 'cuts': list(cuts),
                        'maxread': 1, 'transport': tr, 'bytes_mode': False}
                n += 1
                try:
                    check_case(case, col)
                except Violation as v:
                    col.fail(v.key, v.what, case)
                    if len(col.failures) >= 4:
                        return
    col.count('exhaustive_cases', n)


EXHAUSTIVE_NOTE = 'every 1- and 2-cut splitting of 4 short texts (<= 24 bytes) x 9 codecs x {pipe, SocketSpawn}, strict policy'


def run_shard(spec, seed, idx, deadline_ts):
    col = Collector()
    kind = spec['kind']
    if kind == 'sweep':
        run_sweep(spec, col, deadline_ts)
        return col
    tr = {'fd': ['pipe', 'sockfd', 'socket'], 'async': ['async'], 'popen': ['popen'], 'pty': ['pty']}[kind]

    def body(case, c):
        with case_watchdog(90, 'C07 case'):
            check_case(case, c)
    run_batches(body, cases(tr), spec['n'], seed * 1000 + idx, col,
                batch=(100 if kind in ('popen', 'pty') else None), deadline_ts=deadline_ts)
    return col


def replay(case, spec=None):
    check_case(case)


def _probe_socket_text():
    check_case({'enc': 'utf-8', 'errors': 'strict', 'data': 'aé'.encode('utf-8'), 'mode': 'sizes', 'cuts': [2],
                'maxread': 1, 'transport': 'socket', 'bytes_mode': False})


PROBES = [('probe:socketspawn-unicode', 'SocketSpawn in unicode mode delivers undecoded bytes and does not log reads', _probe_socket_text)]
