"""C08 Send fidelity: the peer receives exactly what was sent, once, in order.

Generated histories of send / sendline / write / writelines / sendcontrol /
sendeof / sendintr (interleaved with reads of scripted peer output) run against
a recording peer on the four transports (vf/engines/dialogue.py).  Oracle: the
bytes the peer recorded == the concatenation, in call order, of the arguments
encoded with a stateful encoder of the instance encoding (UTF-8 for text given
in bytes mode), plus exactly one line separator per sendline and exactly one
control byte per valid sendcontrol/sendeof/sendintr; nothing else.  send and
sendline return the number of bytes written.

The same history runner serves C11 (logging fidelity), which adds recording
log files in every combination.
"""
import codecs
import os
import time

from hypothesis import strategies as st

from ..common import Violation, Collector, run_batches, guard, case_watchdog
from ..engines import dialogue, peers

import pexpect
from pexpect.exceptions import EOF, TIMEOUT

PROPERTY = 'C08'
RULE = ('Hypothesis-generated histories (1-8 operations) over send/sendline/write/writelines/sendcontrol(name)/'
        'sendeof/sendintr with payloads over all 256 byte values, non-ASCII text, empty strings and sizes up to '
        '70 KB (thorough 256 KB), interleaved with reads (a third of them ending inside a multi-byte character whose '
        'rest arrives with the next read), in bytes mode (bytes and str arguments) and unicode mode '
        '(utf-8, latin-1; utf-16 where the transport allows), on pty (raw-mode recording child), fdspawn, '
        'SocketSpawn and PopenSpawn; writelines() is given a list, tuple, generator, iterator or map.  Non-trivial: >= 3 send-family calls including a non-ASCII/non-UTF-8 payload, '
        'a payload larger than 64 KB, or a control call between sends.  Distinct by hash of the case.')
ASSUMPTIONS = [
    'the peer\'s own recording (a raw-mode tty / a pipe / a socket) is the ground truth of what reached it',
    'read triggers and the end marker are written directly to the descriptor by the harness and removed from the recording',
    'delaybeforesend in {None, 0, 1 ms} (a public knob); os.linesep is "\\n"',
]
BUDGET = {'quick': 240, 'thorough': 1500}

CONTROL_TABLE = {'@': 0, '`': 0, '[': 27, '{': 27, '\\': 28, '|': 28, ']': 29, '}': 29, '^': 30, '~': 30, '_': 31, '?': 127}


def _as_iterable(items, kind):
    items = list(items)
    if kind == 'tuple':
        return tuple(items)
    if kind == 'generator':
        return (x for x in items)
    if kind == 'iterator':
        return iter(items)
    if kind == 'map':
        return map(lambda x: x, items)
    return items


def shards(tier):
    q = tier == 'quick'
    return [{'kind': 'hist', 'n': 300 if q else 2500, 'big': not q} for _ in range(16)]


def payloads(text_mode, enc, big):
    sizes = st.sampled_from([0, 1, 2, 5, 30] + ([70000] if not big else [70000, 262144]))
    if text_mode:
        chars = ['a', 'Z', ' ', '\n', '\r', '\t', '\x00', '\x03', '\x04', '\x1b', '\x7f', 'é', 'ÿ']
        if enc != 'latin-1':
            chars += ['€', '語', '\U0001f600']
        small = st.text(alphabet=chars, min_size=0, max_size=12)
        return st.one_of(small, small, small, st.builds(lambda n, c: c * n, st.sampled_from([70000]), st.sampled_from(['x', 'é'])))
    small_b = st.binary(min_size=0, max_size=12)
    small_s = st.text(alphabet=['a', ' ', '\n', 'é', '€', '\x00', '\U0001f600'], min_size=0, max_size=8)
    bigb = st.builds(lambda n: bytes((i * 7 + 3) % 256 for i in range(n)), st.sampled_from([70000] if not big else [70000, 262144]))
    return st.one_of(small_b, small_b, small_s, st.just(bytes(range(256))), bigb)


@st.composite
def histories(draw, big=False, want_logs=False, transports=('pty', 'pty', 'fd', 'socket', 'popen')):
    transport = draw(st.sampled_from(list(transports)))
    text_mode = draw(st.booleans())
    enc = None
    if text_mode:
        enc = draw(st.sampled_from(['utf-8', 'utf-8', 'latin-1'] + (['utf-16'] if transport != 'pty' else ['utf-7'])))
    P = payloads(text_mode, enc, big)
    if enc == 'utf-7':
        # a codec in which control characters are not single bytes (U+0003 encodes to '+AAM-'); UTF-7 text has more
        # than one valid spelling, so the payloads stay with characters that encode as themselves: what is examined
        # here is that sendcontrol / sendeof / sendintr write one raw byte whatever the codec
        P = st.text(alphabet='abXY09 ./', max_size=12)
    ops = []
    n = draw(st.integers(1, 8))
    nbig = 0
    for _ in range(n):
        k = draw(st.integers(0, 15 if want_logs else 11))
        if k <= 2:
            op = ['send', draw(P)]
        elif k <= 4:
            op = ['sendline', draw(P)]
        elif k == 5:
            op = ['write', draw(P)]
        elif k == 6:
            # "any iterable object producing strings": containers and one-shot iterables alike
            op = ['writelines', draw(st.lists(P, min_size=0, max_size=3)),
                  draw(st.sampled_from(['list', 'list', 'tuple', 'generator', 'iterator', 'map']))]
        elif k == 7 and transport == 'pty':
            op = ['sendcontrol', draw(st.sampled_from(list('abcdefghijklmnopqrstuvwxyz') + list('AGMZ') + list(CONTROL_TABLE) + ['1', '!', 'é']))]
        elif k == 8 and transport == 'pty':
            op = [draw(st.sampled_from(['sendeof', 'sendintr']))]
        elif k >= 9:
            text = ''.join(draw(st.lists(st.sampled_from(['o', 'k', ' ', '\r\n', 'é' if text_mode and enc != 'utf-7' else 'e']), min_size=0, max_size=8)))
            # the last flag: the peer's write for this read ends inside the first character of the next read's
            # text (unicode mode, multi-byte codecs), so the following operations happen with half a character
            # held back in the object's read decoder
            op = ['read', text, draw(st.sampled_from(['expect', 'rnb'])), draw(st.integers(0, 2)) == 0]
        else:
            op = ['send', draw(P)]
        if draw(st.integers(0, 7)) == 0:
            # a poll of the (silent) peer that times out, between the sends
            op = ['poll', draw(st.sampled_from([0, 0, 0.01]))]
        if transport == 'pty' and not text_mode and not want_logs and draw(st.integers(0, 9)) == 0:
            # a payload far larger than the terminal queues, sent while signals arrive at the sending thread
            # and the peer is stopped now and then: os.write comes back short, send() reports how much went
            # out and the caller carries on from there (the documented contract of send())
            op = ['send_storm', draw(st.sampled_from([150000, 400000]))]
        # keep big payloads rare: they dominate the run time
        sz = sum(len(x) for x in (op[1] if op[0] == 'writelines' else [op[1]])) if op[0] in ('send', 'sendline', 'write', 'writelines') else 0
        if sz > 60000:
            nbig += 1
            if nbig > 1:
                continue
        ops.append(op)
    case = {'transport': transport, 'enc': enc, 'ops': ops, 'maxread': draw(st.sampled_from([2000, 2000, 3])),
            'sock_timeout': draw(st.sampled_from([None, 5.0])), 'small_sndbuf': draw(st.booleans()),
            'delaybeforesend': draw(st.sampled_from([None, None, 0, 0.001]))}
    if want_logs:
        case['logs'] = sorted(draw(st.sets(st.sampled_from(['logfile', 'logfile_read', 'logfile_send']),
                                          min_size=draw(st.sampled_from([0, 1, 2, 2, 3])), max_size=3)))
    return case


class Model(object):
    """Independent statement of what must appear on the wire and in the logs."""

    def __init__(self, enc):
        self.enc = enc
        self.text_mode = enc is not None
        self.encoder = codecs.getincrementalencoder(enc)() if enc else None
        self.rencoder = codecs.getincrementalencoder(enc)() if enc else None
        self.wire = []
        self.log_send = []
        self.log_read = []
        self.log_all = []
        self.linesep = os.linesep if self.text_mode else os.linesep.encode('ascii')

    def coerce(self, s):
        if not self.text_mode and not isinstance(s, bytes):
            return s.encode('utf-8')
        return s

    def send(self, s):
        s = self.coerce(s)
        b = self.encoder.encode(s) if self.encoder else s
        self.wire.append(b)
        self.log_send.append(s)
        self.log_all.append(s)
        return len(b)

    def sendline(self, s):
        return self.send(self.coerce(s) + self.linesep)

    def control(self, byte):
        self.wire.append(byte)
        s = byte.decode(self.enc, 'replace') if self.text_mode else byte
        self.log_send.append(s)
        self.log_all.append(s)

    def read_chunk(self, text):
        """bytes the peer must write so that the object reads `text`"""
        if self.text_mode:
            b = self.rencoder.encode(text)
        else:
            text = text.encode('utf-8')
            b = text
        self.log_read.append(text)
        self.log_all.append(text)
        return b, text


def storm_payload(n):
    return bytes(((i * 131 + (i >> 8) * 17 + 7) % 251) for i in range(n))


class Storm(object):
    """While active: SIGUSR1 (no-op handler) at the calling thread every millisecond, and the peer process
    stopped for 15 ms out of every 30, so that writes to it block and are interrupted part-way."""

    def __init__(self, pid):
        self.pid = pid

    def __enter__(self):
        import signal
        import threading
        self.signal = signal
        self.saved = signal.signal(signal.SIGUSR1, lambda *a: None)
        self.stop = threading.Event()
        target = threading.get_ident()

        def run():
            k = 0
            stopped = False
            while not self.stop.is_set():
                try:
                    signal.pthread_kill(target, signal.SIGUSR1)
                except Exception:
                    break
                k += 1
                if k % 15 == 0:
                    try:
                        os.kill(self.pid, signal.SIGCONT if stopped else signal.SIGSTOP)
                        stopped = not stopped
                    except OSError:
                        pass
                time.sleep(0.001)
            try:
                os.kill(self.pid, signal.SIGCONT)
            except OSError:
                pass
        self.th = threading.Thread(target=run, daemon=True)
        self.th.start()
        return self

    def __exit__(self, *a):
        self.stop.set()
        self.th.join(2)
        try:
            os.kill(self.pid, self.signal.SIGCONT)
        except OSError:
            pass
        self.signal.signal(self.signal.SIGUSR1, self.saved)


def control_byte(name):
    ch = name.lower()
    a = ord(ch) if len(ch) == 1 else -1
    if 97 <= a <= 122:
        return bytes([a - 96])
    if ch in CONTROL_TABLE:
        return bytes([CONTROL_TABLE[ch]])
    return None


def run_history(case, logs=None):
    """Executes the history.  Returns dict(received, model, returns, sess_logs).
    Raises Violation for return-value and read-side failures."""
    enc = case['enc']
    text_mode = enc is not None
    mo = Model(enc)
    # scripted read chunks: text + unique terminator
    chunks = []
    reads = [op for op in case['ops'] if op[0] == 'read']
    can_split = text_mode and len('\xe9'.encode(enc)) >= 2
    prefix = {}                   # read number -> text that its chunk starts with (the split character)
    for k, op in enumerate(reads):
        if k > 0 and can_split and len(reads[k - 1]) > 3 and reads[k - 1][3]:
            prefix[k] = '\xe9'
        b, text = mo.read_chunk(prefix.get(k, '') + op[1] + '#%d;' % k)
        if k in prefix:
            chunks[-1] += b[:1]
            b = b[1:]
        chunks.append(b)
    # the model accumulated log entries for reads up front; rebuild in operation order below
    mo.log_read, mo.log_all = [], []
    mo.rencoder = codecs.getincrementalencoder(enc)() if enc else None
    sess = dialogue.Session(case['transport'], chunks, encoding=enc, timeout=30, maxread=case.get('maxread', 2000),
                            sock_timeout=case.get('sock_timeout'), small_sndbuf=case.get('small_sndbuf', False))
    reclogs = {}
    try:
        child = sess.child
        child.delaybeforesend = case.get('delaybeforesend')
        for name in (logs or []):
            reclogs[name] = peers.RecLog()
            setattr(child, name, reclogs[name])
        k = 0
        returns = []
        short_writes = [0]
        for i, op in enumerate(case['ops']):
            kind = op[0]
            where = 'op %d %s on %s (%s)' % (i, kind, case['transport'], enc or 'bytes')
            with guard(where, allow=()):
                if kind == 'send':
                    want = mo.send(op[1])
                    got = child.send(op[1])
                    returns.append((where, got, want, len(op[1]) > 60000))
                elif kind == 'sendline':
                    want = mo.sendline(op[1])
                    got = child.sendline(op[1])
                    returns.append((where, got, want, len(op[1]) > 60000))
                elif kind == 'write':
                    mo.send(op[1])
                    got = child.write(op[1])
                    if got is not None:
                        raise Violation('return-value', '%s returned %r, documented: no return value' % (where, got))
                elif kind == 'writelines':
                    for p in op[1]:
                        mo.send(p)
                    child.writelines(_as_iterable(op[1], op[2] if len(op) > 2 else 'list'))
                elif kind == 'sendcontrol':
                    byte = control_byte(op[1])
                    got = child.sendcontrol(op[1])
                    if byte is None:
                        if got != 0:
                            raise Violation('return-value', '%s(%r) returned %r for an invalid name' % (where, op[1], got))
                        # nothing on the wire; pexpect logs an empty string, which does not change the transcript
                    else:
                        mo.control(byte)
                        if got != 1:
                            raise Violation('return-value', '%s(%r) returned %r, one byte is written' % (where, op[1], got))
                elif kind == 'poll':
                    try:
                        d = child.read_nonblocking(1, timeout=op[1])
                        if len(d):          # (PopenSpawn answers a poll that finds nothing with an empty string)
                            raise Violation('read-differs', '%s: a poll of a silent peer returned %r' % (where, d))
                    except TIMEOUT:
                        pass
                    except EOF:
                        raise Violation('read-failed', '%s: EOF from a peer that is waiting for input' % where)
                elif kind == 'send_storm':
                    data = storm_payload(op[1])
                    mo.send(data)
                    rest = data
                    calls = 0
                    with Storm(child.pid):
                        while rest:
                            n = child.send(rest)
                            calls += 1
                            if not isinstance(n, int) or n <= 0 or n > len(rest) or calls > 100000:
                                raise Violation('return-value', '%s: send() of %d bytes returned %r' % (where, len(rest), n))
                            rest = rest[n:]
                    short_writes[0] += calls - 1
                elif kind == 'sendeof':
                    mo.control(b'\x04')
                    child.sendeof()
                elif kind == 'sendintr':
                    mo.control(b'\x03')
                    child.sendintr()
                elif kind == 'read':
                    b, text = mo.read_chunk(prefix.get(k, '') + op[1] + '#%d;' % k)
                    term = ('#%d;' % k) if text_mode else ('#%d;' % k).encode('ascii')
                    k += 1
                    sess.trigger_read()
                    try:
                        if op[2] == 'expect':
                            child.expect_exact(term, timeout=20)
                            got_text = child.before + child.after
                        else:
                            got_text = '' if text_mode else b''
                            while not got_text.endswith(term):
                                got_text += child.read_nonblocking(min(100, case.get('maxread', 2000)), 20)
                    except (EOF, TIMEOUT) as e:
                        raise Violation('read-failed', '%s: %s while reading the scripted chunk %r' % (where, type(e).__name__, text))
                    if got_text != text:
                        raise Violation('read-differs', '%s: read %r, the peer wrote %r' % (where, got_text, text))
        snap = {n: (list(l.writes), list(l.flushed)) for n, l in reclogs.items()}
        for n in reclogs:
            setattr(child, n, None)
        received = sess.finish()
        return {'received': received, 'model': mo, 'returns': returns, 'logs': snap, 'short_writes': short_writes[0]}
    finally:
        sess.close()


def check_case(case, col=None):
    res = run_history(case)
    mo = res['model']
    want = b''.join(mo.wire)
    got = res['received']
    if got != want:
        k = 0
        while k < min(len(got), len(want)) and got[k] == want[k]:
            k += 1
        raise Violation('wire-differs:' + case['transport'],
                        '%s transport (%s): the peer received %d bytes, the arguments encode to %d bytes; first difference '
                        'at offset %d: got %r, expected %r' % (case['transport'], case['enc'] or 'bytes', len(got), len(want), k,
                                                              got[k:k + 12], want[k:k + 12]))
    for where, g, w, is_big in res['returns']:
        if g != w:
            raise Violation('return-value', '%s returned %r; %d bytes were written' % (where, g, w))
    sends = [op for op in case['ops'] if op[0] not in ('read', 'poll')]
    nonascii = False
    bigp = False
    ctl_between = False
    for i, op in enumerate(case['ops']):
        if op[0] in ('send', 'sendline', 'write'):
            ps = [op[1]]
        elif op[0] == 'writelines':
            ps = op[1]
        else:
            ps = []
            if op[0] in ('sendcontrol', 'sendeof', 'sendintr') and 0 < i < len(case['ops']) - 1:
                ctl_between = True
        for p in ps:
            if len(p) > 65536:
                bigp = True
            if isinstance(p, bytes):
                try:
                    p.decode('ascii')
                except UnicodeDecodeError:
                    nonascii = True
            elif any(ord(c) > 127 for c in p):
                nonascii = True
    nt = (len(sends) >= 3 and nonascii) or bigp or (ctl_between and len(sends) >= 3) or res.get('short_writes', 0) > 0
    if col is not None:
        col.label('transport=' + case['transport'])
        col.label('mode=' + (case['enc'] or 'bytes'))
        if bigp:
            col.label('payload>64KB')
        if ctl_between:
            col.label('control-between-sends')
        if any(op[0] == 'send_storm' for op in case['ops']):
            col.label('send-under-signals')
            col.count('short_writes_observed', res.get('short_writes', 0))
        col.case(case, nt)


def run_shard(spec, seed, idx, deadline_ts):
    col = Collector()

    def body(case, c):
        with case_watchdog(150, 'C08 history'):
            check_case(case, c)
    run_batches(body, histories(big=spec.get('big', False)), spec['n'], seed * 1000 + idx, col, batch=40, deadline_ts=deadline_ts)
    return col


def replay(case, spec=None):
    check_case(case)


PROBES = []
