"""C06 Transport fidelity: all peer output delivered once, in order, before EOF.

Part A (E2, decisive): a generated peer script (writes of 0 .. several hundred
KB split arbitrarily, then close/exit in either order) is executed on real
kernel objects (pty pair, pipe, socketpair) *between the reader's system
calls*: timestamps at microsecond granularity land an action between
select(0) / os.read / waitpid / the timed select of one read_nonblocking call.
The reader is the real pexpect.spawn / fdspawn / SocketSpawn with a generated
size/maxread, select or poll, and one of three loop styles.
Part B (E3, confirmatory): real pty child / Popen child writing up to 512 KB
with randomised sleeps and exiting immediately after the last write.

Oracle: the concatenation of everything returned before EOF == the bytes the
peer wrote, in order; EOF comes, and only after all of it; every single result
<= the requested size; flag_eof is set at EOF; a socket's own timeout is what
it was before every call, including calls that raise.
"""
import os
import signal

from hypothesis import strategies as st

from ..common import Violation, Collector, run_batches, guard, case_watchdog
from ..engines import simkernel, peers
from ..engines.simkernel import Blocked

import pexpect
from pexpect.exceptions import EOF, TIMEOUT

PROPERTY = 'C06'
RULE = ('Part A: Hypothesis-generated peer scripts (1-6 writes of 0..300 KB, then close and exit in either order; '
        'timestamps either k microseconds - between two specific reader syscalls - or fractions of the reader '
        'timeout) x {pty, pipe, socket} x maxread/size in {1, 7, 100, 2000, 65536} x select|poll x loop style '
        '{read_nonblocking until EOF, expect(EOF), read()} x socket timeout found in {None, 0.0, 2.5}, on real kernel '
        'objects with interposed syscalls and a virtual clock.  Part B: real pty/Popen children with randomised '
        'sleeps, read by expect(EOF), blocking read_nonblocking or a polling loop whose per-read time limits cycle through a generated list over {0, 0.5 ms, 10 ms, 60 s}.  Both tiers also enumerate exhaustively every placement of a short peer script (write(s), close, exit in both '
        'orders) between the first 14 interposed system calls of the reader.  Non-trivial: a peer action fell between two reader syscalls of one API call, or the output '
        'exceeds the read size, or the peer exited/closed with unread data.  Distinct by hash of the case.')
ASSUMPTIONS = [
    'E2 trusts our model of *when* waitpid reports the child dead; reads, readiness and EIO are the real kernel\'s',
    'all peer writes precede the peer\'s exit (output of other processes holding the tty is not "the peer\'s")',
    'PopenSpawn reader-thread interleavings are perturbed by child-side sleeps, not enumerated (part B only)',
]
BUDGET = {'quick': 240, 'thorough': 1500}


def shards(tier):
    q = tier == 'quick'
    out = [{'kind': 'sweep', 'part': k, 'parts': 4} for k in range(4)]
    out += [{'kind': 'sim', 'n': 1000 if q else 25000} for _ in range(10)]
    out += [{'kind': 'real', 'n': 30 if q else 400} for _ in range(4)]
    return out


def payload(off, n):
    """deterministic, position-dependent bytes: loss, duplication and
    reordering all change the content"""
    return bytes(((i * 131 + (i >> 8) * 17 + 7) % 251) for i in range(off, off + n))


def text_payload(total):
    """exactly `total` bytes of valid UTF-8, position-dependent, mixing 1-4 byte characters"""
    chars = ['a', '\xe9', '\u20ac', 'Z', '\U0001d11e', '7', '\xdf', '\u8a9e']
    out = bytearray()
    i = 0
    while len(out) < total - 4:
        out += chars[(i * 7 + (i >> 5)) % len(chars)].encode('utf-8')
        out += (b'%d' % (i % 10))
        i += 1
    out += b'x' * (total - len(out))
    return bytes(out)


@st.composite
def sim_cases(draw):
    kind = draw(st.sampled_from(['pty', 'pty', 'pipe', 'socket']))
    size = draw(st.sampled_from([1, 7, 100, 2000, 2000, 65536]))
    sizes = [0, 1, 2, 5, 50, 999, 1000, 1001, 2000, 2001, 4096, 5000]
    if size >= 2000:
        sizes += [70000, 300000]
    elif size >= 100:
        sizes += [20000]
    T = draw(st.sampled_from([0.5, 2.0, 30.0]))
    nwrites = draw(st.integers(0, 6))
    acts = []
    t = 0.0
    off = 0

    def next_t(t):
        mode = draw(st.integers(0, 4))
        if mode <= 1:
            return t + draw(st.integers(0, 12)) * 1e-6          # between two reader syscalls
        if mode == 2:
            return t + draw(st.sampled_from([0.1, 0.5, 0.999, 1.001, 1.7])) * T
        if mode == 3:
            # a few microseconds after a timed wait of the reader expires (its waits start within a few
            # microseconds of multiples of T): between the expiry and the liveness check that follows it
            return max(t, draw(st.integers(1, 3)) * T + draw(st.integers(0, 14)) * 1e-6)
        return t
    for _ in range(nwrites):
        t = next_t(t)
        n = draw(st.sampled_from(sizes))
        acts.append({'t': t, 'op': 'write', 'n': n, 'off': off})
        off += n
    t = next_t(t)
    if kind == 'pty':
        order = draw(st.sampled_from(['close-exit', 'exit-close', 'same']))
        status = draw(st.sampled_from([0, 1 << 8, 3 << 8, 9, 15]))
        if order == 'close-exit':
            acts.append({'t': t, 'op': 'close'})
            t2 = next_t(t)
            acts.append({'t': t2, 'op': 'exit', 'status': status})
        elif order == 'exit-close':
            acts.append({'t': t, 'op': 'exit', 'status': status})
            t2 = next_t(t)
            acts.append({'t': t2, 'op': 'close'})
        else:
            acts.append({'t': t, 'op': 'close'})
            acts.append({'t': t, 'op': 'exit', 'status': status})
    else:
        acts.append({'t': t, 'op': 'close'})
    return {'kind': kind, 'T': T, 'actions': acts, 'use_poll': draw(st.booleans()),
            'size': size,
            'style': draw(st.sampled_from(['rnb', 'rnb', 'expect_eof', 'read', 'expect_poll'])),
            'sock_timeout': draw(st.sampled_from([None, 0.0, 2.5])),
            'eintr': draw(st.integers(0, 5)) == 0,
            # unicode mode: the peer's writes (and the reads) cut the UTF-8 stream at arbitrary bytes
            'enc': draw(st.sampled_from([None, None, 'utf-8'])),
            # the object's maxread, when it differs from the size asked of read_nonblocking (None: the same)
            'maxread': draw(st.sampled_from([None, None, 2000, 65536]))}


def materialise(case):
    acts = []
    total = sum(a['n'] for a in case['actions'] if a['op'] == 'write')
    whole = text_payload(total) if case.get('enc') else None
    for a in case['actions']:
        a = dict(a)
        if a['op'] == 'write':
            a['data'] = whole[a['off']:a['off'] + a['n']] if whole is not None else payload(a['off'], a['n'])
        acts.append(a)
    if case.get('eintr') and acts:
        acts.append({'t': acts[len(acts) // 2]['t'] + 0.05 * case['T'], 'op': 'eintr'})
    return acts


def check_sim(case, col=None):
    sim = simkernel.Sim(case['kind'], materialise(case))
    total = sum(a['n'] for a in case['actions'] if a['op'] == 'write')
    size = case['size']
    T = case['T']
    sp = None
    feats = set()
    try:
        with sim.installed():
            enc = case.get('enc')
            ekw = {'encoding': enc} if enc else {}
            style = case['style']
            sp = simkernel.make_reader(sim, use_poll=case['use_poll'], timeout=T,
                                       maxread=(max(size, case['maxread']) if case.get('maxread') and style == 'rnb' else size), **ekw)
            sp.delayafterread = None
            if case['kind'] == 'socket':
                sim.sock_proxy._timeout = case['sock_timeout']
            got = '' if enc else b''
            eof_seen = False
            style = case['style']
            try:
                with guard('reader loop (%s)' % style, allow=(EOF, TIMEOUT)):
                    if style == 'rnb':
                        for _ in range(total + 1000):
                            c0 = sim.ncalls
                            over_at_start = sim.peer_closed and (case['kind'] != 'pty' or sim.child_status is not None)
                            try:
                                d = sp.read_nonblocking(size, timeout=T)
                            except TIMEOUT:
                                if case['kind'] == 'socket' and sim.sock_proxy.gettimeout() != case['sock_timeout']:
                                    raise Violation('socket-timeout-not-restored', 'after a TIMEOUT the socket timeout is %r, was %r'
                                                    % (sim.sock_proxy.gettimeout(), case['sock_timeout']))
                                if over_at_start:
                                    raise Violation('timeout-after-close', 'TIMEOUT from a read that started after the peer had closed '
                                                    '(and exited)')
                                continue
                            except EOF:
                                eof_seen = True
                                break
                            finally:
                                if any(n.startswith('peer:') for (_, n, _) in sim.log[-(sim.ncalls - c0) - 6:]) and sim.ncalls - c0 >= 2:
                                    pass
                            if len(d) > size:
                                raise Violation('read-larger-than-size', 'read_nonblocking(%d) returned %d bytes' % (size, len(d)))
                            if len(d) == 0 and not enc:       # (unicode mode: a read may hold only part of a character)
                                raise Violation('empty-read', 'read_nonblocking returned no data and no EOF')
                            got += d
                            if case['kind'] == 'socket' and sim.sock_proxy.gettimeout() != case['sock_timeout']:
                                raise Violation('socket-timeout-not-restored', 'after a read the socket timeout is %r, was %r'
                                                % (sim.sock_proxy.gettimeout(), case['sock_timeout']))
                        else:
                            raise Violation('runaway', 'reader loop did not reach EOF in %d reads' % (total + 1000))
                    elif style == 'expect_poll':
                        # a polling reader: expect([TIMEOUT, EOF], timeout=0) until EOF, a short sleep after every poll
                        # that found the stream still open; a TIMEOUT consumes nothing, so `before` at EOF is everything
                        import pexpect.pty_spawn as _ps
                        for _ in range(total + 20000):
                            i = sp.expect([TIMEOUT, EOF], timeout=0)
                            if i == 1:
                                got = sp.before
                                eof_seen = True
                                break
                            _ps.time.sleep(T / 40.0)
                        else:
                            raise Violation('runaway', 'polling reader did not reach EOF in 20000 polls')
                    elif style == 'expect_eof':
                        try:
                            sp.expect(EOF, timeout=None)
                        except TIMEOUT:
                            raise Violation('timeout-without-limit', 'expect(EOF, timeout=None) raised TIMEOUT (%s transport, %s); '
                                            'pending %d of %d' % (case['kind'], 'poll' if case['use_poll'] else 'select', len(sp.before or ''), total))
                        got = sp.before
                        eof_seen = True
                    else:
                        sp.timeout = None
                        try:
                            got = sp.read()
                        except TIMEOUT:
                            raise Violation('timeout-without-limit', 'read() with timeout None raised TIMEOUT (%s transport, %s)'
                                            % (case['kind'], 'poll' if case['use_poll'] else 'select'))
                        eof_seen = True
            except Blocked as b:
                # the only scripted way to block forever is a bug: close and exit always come
                raise Violation('blocked', 'reader blocked forever (%s) although the peer closed and exited; got %d of %d bytes'
                                % (b, len(got), total))
            if not eof_seen:
                raise Violation('no-eof', 'EOF never reported')
            want = sim.written
            if len(want) != total:
                raise Violation('harness-accounting', 'peer wrote %d of %d scripted bytes' % (len(want), total))
            if enc:
                want = want.decode(enc)
            if got != want:
                # describe the first difference
                k = 0
                while k < min(len(got), len(want)) and got[k] == want[k]:
                    k += 1
                raise Violation('content:' + case['kind'], '%s transport (%s, size %d%s): delivered %d %s, peer wrote %d; first '
                                'difference at offset %d' % (case['kind'], style, size, ', ' + enc if enc else '', len(got),
                                                             'characters' if enc else 'bytes', len(want), k))
            if not sp.flag_eof:
                raise Violation('flag-eof', 'flag_eof is not set after EOF')
            # delivered once: whatever is read after EOF was reported adds nothing
            for again in ('read', 'expect_eof'):
                try:
                    with guard('%s after EOF' % again, allow=(EOF, TIMEOUT)):
                        if again == 'read':
                            more = sp.read()
                        else:
                            sp.expect(EOF, timeout=T)
                            more = sp.before
                except (EOF, TIMEOUT) as e:
                    raise Violation('after-eof', '%s after EOF raised %s' % (again, type(e).__name__))
                except Blocked as b:
                    raise Violation('blocked', '%s after EOF blocks (%s)' % (again, b))
                if len(more):
                    raise Violation('delivered-twice', '%s transport: %s after EOF had been reported handed out %d more %s (%r...)'
                                    % (case['kind'], again, len(more), 'characters' if enc else 'bytes', more[:20]))
            if case['kind'] == 'socket' and sim.sock_proxy.gettimeout() != case['sock_timeout']:
                raise Violation('socket-timeout-not-restored', 'after EOF the socket timeout is %r, was %r'
                                % (sim.sock_proxy.gettimeout(), case['sock_timeout']))
            # non-triviality: a peer action between two reader syscalls
            names = [n for (_, n, _) in sim.log]
            for i in range(1, len(names) - 1):
                if names[i].startswith('peer:') and not names[i - 1].startswith('peer:') and names[i - 1] != 'sleep':
                    feats.add('action-between-syscalls')
            if total > size:
                feats.add('output-larger-than-size')
            if case['kind'] == 'pty' and any(a['op'] == 'write' and a['n'] > 0 for a in case['actions']):
                feats.add('exit-with-unread-data')
    finally:
        if sp is not None:
            simkernel.dispose_reader(sim, sp)
        sim.cleanup()
    if col is not None:
        for f in feats:
            col.label(f)
        col.label('transport=' + case['kind'])
        col.label('style=' + case['style'])
        if case.get('enc'):
            col.label('unicode-mode')
        col.case(case, bool(feats))


# ---------------------------------------------------------------------------
# part B: real children

@st.composite
def real_cases(draw):
    kind = draw(st.sampled_from(['pty', 'popen']))
    n = draw(st.integers(0, 6))
    acts = []
    off = 0
    for _ in range(n):
        sz = draw(st.sampled_from([0, 1, 100, 1023, 1024, 1025, 4096, 65536, 200000, 512000]))
        acts.append(['w', off, sz])
        off += sz
        acts.append(['s', draw(st.sampled_from([0, 0, 0.0001, 0.001, 0.005]))])
    return {'kind': kind, 'acts': acts, 'exit': draw(st.sampled_from([0, 3])),
            'maxread': draw(st.sampled_from([1000, 2000, 65536])),
            'style': draw(st.sampled_from(['expect_eof', 'rnb', 'rnbmix'])),
            'rtimeouts': draw(st.lists(st.sampled_from([0, 0, 0.0005, 0.01, 60]), min_size=1, max_size=4))}


def check_real(case, col=None):
    actions = []
    want = b''
    for a in case['acts']:
        if a[0] == 'w':
            d = payload(a[1], a[2])
            want += d
            actions.append(['w', d.hex()])
        else:
            actions.append(['s', a[1]])
    actions.append(['exit', case['exit']])
    if case['kind'] == 'pty':
        child, ps = peers.pty_peer(actions, raw=True, record=False, wait_ready=False, maxread=case['maxread'], timeout=60)
    else:
        child, ps = peers.popen_peer(actions, record=False, wait_ready=False, maxread=case['maxread'], timeout=60)
    try:
        got = b''
        with guard('real %s reader' % case['kind'], allow=(EOF, TIMEOUT)):
            try:
                if case['style'] == 'expect_eof':
                    child.expect(EOF)
                    got = child.before
                elif case['style'] == 'rnbmix':
                    # polling reader: per-read time limits cycle through a generated list (0 = look once)
                    import time as _time
                    t_end = _time.time() + 60
                    k = 0
                    while True:
                        T = case['rtimeouts'][k % len(case['rtimeouts'])]
                        k += 1
                        try:
                            d = child.read_nonblocking(case['maxread'], T)
                        except TIMEOUT:
                            if _time.time() > t_end:
                                raise
                            if T == 0:
                                _time.sleep(0.0003)
                            continue
                        if len(d) > case['maxread']:
                            raise Violation('read-larger-than-size', 'read_nonblocking(%d) returned %d bytes' % (case['maxread'], len(d)))
                        got += d
                else:
                    while True:
                        d = child.read_nonblocking(case['maxread'], 60)
                        if len(d) > case['maxread']:
                            raise Violation('read-larger-than-size', 'read_nonblocking(%d) returned %d bytes' % (case['maxread'], len(d)))
                        got += d
            except EOF:
                pass
            except TIMEOUT:
                raise Violation('real-timeout', '%s child: TIMEOUT (60 s) before EOF; got %d of %d bytes' % (case['kind'], len(got), len(want)))
        if got != want:
            k = 0
            while k < min(len(got), len(want)) and got[k] == want[k]:
                k += 1
            raise Violation('content:real-' + case['kind'], 'real %s child: delivered %d bytes, child wrote %d; first difference at %d'
                            % (case['kind'], len(got), len(want), k))
    finally:
        if case['kind'] == 'pty':
            peers.reap(child)
        else:
            peers.reap_popen(child)
        ps.cleanup()
    if col is not None:
        col.label('real=' + case['kind'])
        col.label('real-style=' + case['style'])
        col.case(case, len(want) > case['maxread'])


def sweep_cases(part, parts):
    """Exhaustive placement of a short peer script between the reader's first interposed calls: every
    non-decreasing assignment of call indices to [write(s), close/exit in both orders]."""
    import itertools
    n = 0
    for kind in ('pty', 'pipe', 'socket'):
        scripts = []
        if kind == 'pty':
            scripts += [[('write', 3), ('close',), ('exit',)], [('write', 3), ('exit',), ('close',)]]
            scripts += [[('write', 2), ('write', 3), ('close',), ('exit',)], [('write', 2), ('write', 3), ('exit',), ('close',)]]
        else:
            scripts += [[('write', 3), ('close',)], [('write', 2), ('write', 3), ('close',)]]
        for script in scripts:
            top = 14 if len(script) <= 3 else 10
            for idxs in itertools.combinations_with_replacement(range(1, top + 1), len(script)):
                for use_poll in (False, True):
                    for size in (1, 2000):
                        n += 1
                        if n % parts != part:
                            continue
                        evs = [e[0] for e in script]
                        if 'exit' in evs and evs.index('close') < evs.index('exit') and \
                                idxs[evs.index('close')] != idxs[evs.index('exit')]:
                            continue        # hang-up strictly before the exit: the open C05 finding (blocking waitpid)
                        acts = []
                        off = 0
                        for (ev, ix) in zip(script, idxs):
                            if ev[0] == 'write':
                                acts.append({'at_call': ix, 't': 0.0, 'op': 'write', 'n': ev[1], 'off': off})
                                off += ev[1]
                            elif ev[0] == 'close':
                                acts.append({'at_call': ix, 't': 0.0, 'op': 'close'})
                            else:
                                acts.append({'at_call': ix, 't': 0.0, 'op': 'exit', 'status': 0})
                        yield {'kind': kind, 'T': 0.5, 'actions': acts, 'use_poll': use_poll, 'size': size, 'style': 'rnb',
                               'sock_timeout': None, 'eintr': False}


def run_sweep(spec, col, deadline_ts):
    import time
    n = 0
    for case in sweep_cases(spec['part'], spec['parts']):
        if deadline_ts and (n & 255) == 0 and time.time() > deadline_ts:
            col.inconclusive = True
            col.count('exhaustive_cases_partial', n)
            return
        n += 1
        try:
            check_sim(case, col)
        except Violation as v:
            col.fail(v.key, v.what, case)
            if len(col.failures) >= 4:
                return
    col.count('exhaustive_cases', n)


EXHAUSTIVE_NOTE = ('every placement of [write, (write,) close, exit | exit, close] between the reader\'s first 14 (10) interposed '
                   'system calls, x {pty, pipe, socket} x select|poll x read size {1, 2000}')


def run_shard(spec, seed, idx, deadline_ts):
    col = Collector()
    if spec['kind'] == 'sweep':
        run_sweep(spec, col, deadline_ts)
        return col
    if spec['kind'] == 'sim':
        def body(case, c):
            with case_watchdog(120, 'C06 sim case'):
                check_sim(case, c)
        run_batches(body, sim_cases(), spec['n'], seed * 1000 + idx, col, batch=500, deadline_ts=deadline_ts)
    else:
        def body(case, c):
            with case_watchdog(300, 'C06 real child'):
                check_real(case, c)
        run_batches(body, real_cases(), spec['n'], seed * 1000 + idx, col, batch=50, deadline_ts=deadline_ts)
    return col


def replay(case, spec=None):
    if 'acts' in case:
        check_real(case)
    else:
        check_sim(case)


def _probe_exit_after_timed_wait():
    # the child writes and exits a few microseconds after the reader's first timed wait has expired
    for off in range(0, 10):
        t = 0.5 + off * 1e-6
        check_sim({'kind': 'pty', 'T': 0.5, 'actions': [{'t': t, 'op': 'write', 'n': 4, 'off': 0}, {'t': t, 'op': 'exit', 'status': 0},
                                                         {'t': t, 'op': 'close'}],
                   'use_poll': bool(off % 2), 'size': 2000, 'style': 'rnb', 'sock_timeout': None, 'eintr': False})


PROBES = [('probe:exit-after-timed-wait', 'output written between the expiry of a timed wait and the liveness check that '
           'follows it is lost (EOF raised without looking again)', _probe_exit_after_timed_wait)]
