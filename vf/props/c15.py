"""C15 interact(): a transparent two-way pipe until the escape character.

In-process "user terminal" (E6): STDIN_FILENO/STDOUT_FILENO of the spawn object
are instance attributes; they are pointed at the slave of an os.openpty() pair
whose master the harness holds and plays the user on; sys.stdout is swapped for
a file on that slave; interact() runs in a helper thread.  The inner child is
the raw-mode recording peer.

Generated: keystroke streams (all byte values, multi-byte text, bursts > 1000
bytes) written in generated pieces; child output scripts (incl. bursts > 1000
bytes); the escape character absent / first / middle / last / repeated /
escape_character=None; input and output filters (identity, byte mapping,
dropping); a pending buffer at entry; bytes / unicode mode; select / poll; the
child exiting while interacting; log files attached (C11).

Oracle: the inner peer received == filter(typed)[:first escape]; the user side
received == pending buffer + filter(child output), in order; interact()
returns after the escape / after the child exits (a join timeout is a
violation); the user terminal's mode afterwards == before (a distinctive
non-default mode is set first); logs are the transcript in the mode's type.
"""
import os
import select
import sys
import termios
import threading
import time

from hypothesis import strategies as st

from ..common import Violation, Collector, run_batches, guard, case_watchdog, HarnessError
from ..engines import peers, dialogue

import pexpect
from pexpect.exceptions import EOF, TIMEOUT

PROPERTY = 'C15'
RULE = ('Hypothesis-generated interact() sessions: typed stream (all byte values, multi-byte text, bursts of 1500-3000 '
        'bytes) in 1-5 pieces, escape character absent/first/middle/last/repeated/None, input/output filters, child '
        'output script (0-4 writes incl. 2500-byte bursts), pending buffer at entry, bytes|utf-8, select|poll, child '
        'exit while interacting; one session in six is a paste of 60-150 KB typed while the child does not read yet, '
        'with signals arriving at the copying thread every 2 ms (short writes to the child); a flood tier types the escape while 500 KB of child output pass a slow output filter.  Non-trivial: the escape character is present with data on both sides of it in one '
        'write, or a burst > 1000 bytes, or a filter is installed.  Distinct by hash of the case.')
ASSUMPTIONS = [
    'one write of <= 1000 bytes to a raw pty normally arrives in one read; the oracle (everything before the first '
    'escape of the typed stream) does not depend on it',
    'filters are stateless per byte and never produce or remove the escape character',
    'keystrokes are typed only after interact() has switched the user terminal to raw mode (observed via tcgetattr)',
]
BUDGET = {'quick': 280, 'thorough': 1500}

ESC = b'\x1d'


def shards(tier):
    q = tier == 'quick'
    return ([{'kind': 'interact', 'n': 80 if q else 500} for _ in range(16)] + [{'kind': 'orphan', 'n': 6 if q else 60} for _ in range(4)]
            + [{'kind': 'flood', 'n': 6 if q else 60} for _ in range(2)])


FILTERS = {
    None: None,
    'identity': lambda b: b,
    'upper': lambda b: bytes((c - 32) if 97 <= c <= 122 else c for c in b),
    'drop-x': lambda b: b.replace(b'x', b''),
}


@st.composite
def cases(draw, want_logs=False):
    # with log files attached (C11) the unicode-mode sessions, where logging has to decode, are preferred
    text_mode = draw(st.sampled_from([True, True, True, False])) if want_logs else draw(st.booleans())
    esc_mode = draw(st.sampled_from(['absent', 'first', 'middle', 'middle', 'last', 'repeated', 'repeated', 'none', 'custom']))
    alphabet = [bytes([i]) for i in range(256) if i != 0x1d] if not text_mode else \
        [b'a', b'x', b'Z', b' ', b'\r', b'\n', 'é'.encode('utf-8'), '€'.encode('utf-8'), b'\x03', b'\x04', b'\x1b', b'\x00']
    chunk = st.builds(b''.join, st.lists(st.sampled_from(alphabet), min_size=0, max_size=12))
    burst = st.builds(lambda n, c: c * n, st.sampled_from([1500, 3000]), st.sampled_from([b'k', b'xy']))
    piece = st.one_of(chunk, chunk, chunk, burst)
    pieces = draw(st.lists(piece, min_size=1, max_size=5))
    escape = ESC
    if esc_mode == 'custom':
        escape = b'~'
        pieces = [p.replace(b'~', b'-') for p in pieces]
    # place the escape character(s)
    if esc_mode == 'first':
        pieces[0] = escape + pieces[0]
    elif esc_mode in ('middle', 'custom'):
        k = draw(st.integers(0, len(pieces) - 1))
        p = pieces[k]
        cut = draw(st.integers(0, len(p)))
        pieces[k] = p[:cut] + escape + p[cut:]
    elif esc_mode == 'last':
        pieces[-1] = pieces[-1] + escape
    elif esc_mode == 'repeated':
        k = draw(st.integers(0, len(pieces) - 1))
        p = pieces[k][:900]          # both escapes inside one write of < 1000 bytes
        c1 = draw(st.integers(0, len(p)))
        c2 = draw(st.integers(c1, len(p)))
        pieces[k] = p[:c1] + escape + p[c1:c2] + escape + p[c2:] + draw(st.sampled_from([b'', b'tail']))
    elif esc_mode == 'none':
        # escaping is disabled: the default escape character is ordinary input
        k = draw(st.integers(0, len(pieces) - 1))
        pieces[k] = pieces[k][:5] + ESC + pieces[k][5:]
    outs = draw(st.lists(st.one_of(st.builds(b''.join, st.lists(st.sampled_from([b'o', b'k', b'\r\n', b'\xc3\xa9', b'q']), min_size=1, max_size=10)),
                                   st.just(b'B' * 2500), st.sampled_from([b'x', b'xxx']),       # vanish under the drop-x filter
                                   st.sampled_from([b'o\xc3', b'\xa9k', b'\xe2\x82', b'\xac'])),  # halves of a character
                         min_size=2 if want_logs else 0, max_size=5))
    if want_logs and text_mode and draw(st.booleans()):
        outs = [draw(st.sampled_from([b'o\xc3', b'\xe2\x82'])) if i % 2 == 0 else o for i, o in enumerate(outs)]
    # a character whose first half was written must be completed by the next write
    fixed = []
    for o in outs:
        if fixed and fixed[-1].endswith(b'\xc3') and not o.startswith(b'\xa9'):
            fixed.append(b'\xa9')
        if fixed and fixed[-1].endswith(b'\xe2\x82') and not o.startswith(b'\xac'):
            fixed.append(b'\xac')
        if o.startswith(b'\xa9') and not (fixed and fixed[-1].endswith(b'\xc3')):
            o = b'\xc3' + o
        if o.startswith(b'\xac') and not (fixed and fixed[-1].endswith(b'\xe2\x82')):
            o = b'\xe2\x82' + o
        fixed.append(o)
    if fixed and fixed[-1].endswith(b'\xc3'):
        fixed.append(b'\xa9')
    if fixed and fixed[-1].endswith(b'\xe2\x82'):
        fixed.append(b'\xac')
    outs = fixed
    if text_mode and (want_logs or draw(st.booleans())):
        # type some characters in two halves (two writes, with the child's output in between)
        split = []
        for p_ in pieces:
            if 2 <= len(p_) <= 40 and escape not in p_:
                k_ = draw(st.integers(1, len(p_) - 1))
                split += [p_[:k_], p_[k_:]]
            else:
                split.append(p_)
        pieces = split
    case = {'text_mode': text_mode, 'esc_mode': esc_mode, 'pieces': pieces, 'outs': outs,
            'in_filter': draw(st.sampled_from([None, None, 'identity', 'upper', 'drop-x'])),
            'out_filter': draw(st.sampled_from([None, None, 'identity', 'upper', 'drop-x'])),
            'pending': draw(st.sampled_from([b'', b'', b'ING-TEXT'])),
            # how the text pending at entry came to be pending: left over after a match, or still unmatched after a
            # timed-out exact / windowed search (which trims the *search* buffer, not what is pending); and whether a
            # timed-out expect() is made between the two sessions
            'pending_kind': draw(st.sampled_from(['match', 'match', 'timeout-exact', 'timeout-window'])),
            'expect_between': draw(st.booleans()),
            'use_poll': draw(st.booleans()),
            'child_exits': esc_mode in ('absent', 'none') or draw(st.integers(0, 5)) == 0}
    if not want_logs and draw(st.integers(0, 5)) == 0:
        # a paste: far more keystrokes than the child's terminal queues while the child is not reading yet, so
        # that the copy loop blocks in the middle of a chunk, and signals arriving at the copying thread meanwhile
        # (a SIGWINCH handler, as the interact() documentation itself suggests): short writes
        n_ = draw(st.sampled_from([60000, 150000]))
        big = b''.join(b'%06d|' % i for i in range(n_ // 7))
        case['pieces'] = [big] + case['pieces'] if esc_mode != 'first' else case['pieces'] + [big]
        case['outs'] = [o for o in case['outs'] if len(o) < 200][:3]
        case['stall'] = 0.3
        case['storm'] = True
    if want_logs and text_mode and esc_mode not in ('absent', 'none') and draw(st.integers(0, 2)) == 0:
        # a character split across two interact() sessions: its first bytes are the last thing the child prints
        # in the first session, the rest opens its output in the second one
        case['outs'] = case['outs'][:3] + [b'k\xe2\x82']
        case['second_prefix'] = b'\xac'
        case['child_exits'] = False
    if want_logs:
        case['logs'] = sorted(draw(st.sets(st.sampled_from(['logfile', 'logfile_read', 'logfile_send']), min_size=1, max_size=3)))
    return case


class StdoutSwap(object):
    """sys.stdout replaced by a text file (with .buffer) on the user terminal."""

    def __init__(self, fd):
        self.f = os.fdopen(os.dup(fd), 'w', encoding='utf-8', newline='')
        self.saved = None

    def __enter__(self):
        self.saved = sys.stdout
        sys.stdout = self.f
        return self

    def __exit__(self, *a):
        sys.stdout = self.saved
        try:
            self.f.close()
        except Exception:
            pass


def distinctive_mode(fd):
    attr = termios.tcgetattr(fd)
    attr[0] = termios.ICRNL | termios.IXANY
    attr[1] = 0                                         # no output processing: what is written is what arrives
    attr[3] = termios.ICANON | termios.ISIG | termios.ECHOE      # canonical, no ECHO
    attr[6][termios.VINTR] = b'\x02'
    attr[6][termios.VEOF] = b'\x1a'
    termios.tcsetattr(fd, termios.TCSANOW, attr)
    return termios.tcgetattr(fd)


def drain(fd, into, wait=0.0):
    end = time.time() + wait
    while True:
        r, _, _ = select.select([fd], [], [], max(0.0, min(0.02, end - time.time())))
        if r:
            try:
                d = os.read(fd, 65536)
            except OSError:
                return
            if not d:
                return
            into.append(d)
            continue
        if time.time() >= end:
            return


def join_draining(th, fd, seen, limit):
    """Wait for the interact thread while playing a user terminal that keeps displaying output."""
    end = time.time() + limit
    while th.is_alive() and time.time() < end:
        drain(fd, seen, 0.01)
        th.join(0.005)


def check_case(case, col=None, logs=None):
    text_mode = case['text_mode']
    escape = b'~' if case['esc_mode'] == 'custom' else ESC
    esc_arg = None if case['esc_mode'] == 'none' else escape.decode('latin-1')
    typed = b''.join(case['pieces'])
    in_f = FILTERS[case['in_filter']]
    out_f = FILTERS[case['out_filter']]
    ftyped = in_f(typed) if in_f else typed
    if esc_arg is None or escape not in ftyped:
        want_child = ftyped
        esc_hit = False
    else:
        want_child = ftyped[:ftyped.index(escape)]
        esc_hit = True
    # the child: prints PEND+pending, then after a trigger its output script; records input
    pending = case['pending']
    actions = [['w', (b'PEND' + pending).hex()], ['recuntil', dialogue.trig(0).hex()]]
    if case.get('stall'):
        actions.append(['s', case['stall']])
    for o in case['outs']:
        actions += [['w', o.hex()], ['s', 0.004]]
    if case['child_exits'] and not esc_hit:
        # the child leaves after having received everything that was typed (filtered)
        actions += [['rec', len(want_child)], ['s', 0.05], ['exit', 0]]
    else:
        if esc_hit:
            # a second interact() session follows the first one
            actions += [['recuntil', dialogue.trig(1).hex()], ['w', (case.get('second_prefix', b'') + b'SECOND-OUTPUT').hex()]]
        actions += [['recuntil', dialogue.END.hex()]]
    um, us = os.openpty()
    reclogs = {}
    child = ps = None
    try:
        mode_before = distinctive_mode(us)
        with StdoutSwap(us):
            kw = {'timeout': 20, 'use_poll': case['use_poll']}
            if text_mode:
                kw['encoding'] = 'utf-8'
            child, ps = peers.pty_peer(actions, raw=True, record=True, wait_ready=True, **kw)
            child.delaybeforesend = None
            child.STDIN_FILENO = us
            child.STDOUT_FILENO = us
            child.expect_exact('PEND' if text_mode else b'PEND', timeout=20)
            if pending:
                # make sure the rest is in the buffer
                t0 = time.time()
                never = '\x00never\x00' if text_mode else b'\x00never\x00'
                while len(child.buffer) < len(pending) and time.time() - t0 < 5:
                    try:
                        child.expect(never, timeout=0.05)        # (a regex search without window trims nothing)
                    except TIMEOUT:
                        pass
                kind_ = case.get('pending_kind', 'match')
                try:
                    if kind_ == 'timeout-exact':
                        child.expect_exact('ZQ' if text_mode else b'ZQ', timeout=0.02)
                    elif kind_ == 'timeout-window':
                        child.expect(never, timeout=0.02, searchwindowsize=3)
                except TIMEOUT:
                    pass
            for name in (logs or []):
                reclogs[name] = peers.RecLog()
                setattr(child, name, reclogs[name])
            result = {}

            def run():
                try:
                    child.interact(escape_character=esc_arg, input_filter=in_f, output_filter=out_f)
                    result['ok'] = True
                except BaseException as e:      # noqa
                    result['exc'] = e
            th = threading.Thread(target=run, daemon=True)
            th.start()
            if case.get('storm'):
                import signal as _signal
                saved_usr1 = _signal.signal(_signal.SIGUSR1, lambda *a: None)
                storm_stop = threading.Event()

                def storm():
                    while not storm_stop.is_set() and th.is_alive():
                        try:
                            _signal.pthread_kill(th.ident, _signal.SIGUSR1)
                        except Exception:
                            return
                        time.sleep(0.002)
                storm_th = threading.Thread(target=storm, daemon=True)
                storm_th.start()
            # wait until interact() has put the user terminal into raw mode
            t0 = time.time()
            while time.time() - t0 < 10:
                if not (termios.tcgetattr(us)[3] & termios.ICANON):
                    break
                if not th.is_alive():
                    break
                time.sleep(0.002)
            seen = []
            # start the child's output script (trigger written directly, not through interact)
            os.write(child.child_fd, dialogue.trig(0))
            if case.get('second_prefix'):
                drain(um, seen, 0.05)        # let the first session display the child's output (ending inside a character)
            # type
            for p in case['pieces']:
                if not th.is_alive():
                    break
                off = 0
                t_type = time.time()
                os.set_blocking(um, False)
                try:
                    while off < len(p):
                        try:
                            n = os.write(um, p[off:off + 1000])
                        except BlockingIOError:
                            n = 0           # the copy loop is not reading at the moment: keep displaying, try again
                        off += n
                        drain(um, seen, 0.002 if n == 0 else 0)
                        if n == 0 and (not th.is_alive() or time.time() - t_type > 60):
                            break
                finally:
                    os.set_blocking(um, True)
                drain(um, seen, 0.006)
            # let interact finish
            if esc_hit or case['child_exits']:
                join_draining(th, um, seen, 15)
                if th.is_alive():
                    raise Violation('interact-did-not-return', 'interact() did not return within 15 s after %s'
                                    % ('the escape character was typed' if esc_hit else 'the child exited'))
            else:
                # no escape, child alive: give the copy loop time, then end the session by making the child exit
                drain(um, seen, 0.15)
                os.write(child.child_fd, dialogue.END)
                join_draining(th, um, seen, 15)
                if th.is_alive():
                    raise Violation('interact-did-not-return', 'interact() did not return within 15 s after the child exited')
            drain(um, seen, 0.05)
            if 'exc' in result:
                e = result['exc']
                from ..common import innermost_pexpect_frame
                where = innermost_pexpect_frame(e.__traceback__)
                raise Violation('interact-raised:%s@%s' % (type(e).__name__, where), 'interact() raised %s: %s' % (type(e).__name__, str(e)[:200]))
            mode_after = termios.tcgetattr(us)
            if mode_after != mode_before:
                diff = [i for i in range(7) if mode_after[i] != mode_before[i]]
                raise Violation('terminal-mode-not-restored', 'termios fields %r of the user terminal differ after interact()' % diff)
            second = b''
            if esc_hit and child.isalive():
                # interact() again on the same object: only output not yet shown may appear (the pending text of
                # the first session must not come back), and the session ends at the escape character again
                result2 = {}
                if case.get('expect_between') and not text_mode and not out_f:
                    # (unicode mode: the first session may have ended inside a character; with an output filter it is
                    #  not specified whether text that is pending at entry passes through it)
                    try:
                        child.expect('\x00never\x00' if text_mode else b'\x00never\x00', timeout=0.02)
                    except TIMEOUT:
                        pass
                    # (whatever this call read is pending again and belongs to the second session's output)

                def run2():
                    try:
                        child.interact(escape_character=esc_arg, input_filter=in_f, output_filter=out_f)
                        result2['ok'] = True
                    except BaseException as e:      # noqa
                        result2['exc'] = e
                # the user changes the terminal's settings between the sessions (echo on, another interrupt key): the
                # second session has to give back what *it* found
                attr2 = termios.tcgetattr(us)
                attr2[3] |= termios.ECHO
                attr2[6][termios.VINTR] = b'\x07'
                termios.tcsetattr(us, termios.TCSANOW, attr2)
                mode_before = termios.tcgetattr(us)
                try:
                    termios.tcflush(us, termios.TCIFLUSH)       # keystrokes of the first session that were typed after its escape
                except termios.error:
                    pass
                th2 = threading.Thread(target=run2, daemon=True)
                th2.start()
                t0 = time.time()
                while time.time() - t0 < 10 and (termios.tcgetattr(us)[3] & termios.ICANON) and th2.is_alive():
                    time.sleep(0.002)
                os.write(child.child_fd, dialogue.trig(1))
                second = case.get('second_prefix', b'') + b'SECOND-OUTPUT'
                all_out = pending + (out_f(b''.join(case['outs']) + second) if out_f else b''.join(case['outs']) + second)
                t0 = time.time()
                while time.time() - t0 < 5 and len(b''.join(seen)) < len(all_out):
                    drain(um, seen, 0.01)
                os.write(um, escape)
                join_draining(th2, um, seen, 15)
                if th2.is_alive():
                    raise Violation('interact-did-not-return', 'the second interact() did not return within 15 s after the escape character')
                drain(um, seen, 0.05)
                if 'exc' in result2:
                    raise Violation('interact-raised:second', 'the second interact() raised %r' % (result2['exc'],))
                got_all = b''.join(seen)
                if got_all != all_out:
                    k = 0
                    while k < min(len(got_all), len(all_out)) and got_all[k] == all_out[k]:
                        k += 1
                    raise Violation('output-not-transparent:second-session', 'after a second interact() the user terminal has received %d '
                                    'bytes in total, pending text + child output is %d bytes; first difference at %d: got %r, expected %r'
                                    % (len(got_all), len(all_out), k, got_all[k:k + 20], all_out[k:k + 20]))
                if termios.tcgetattr(us) != mode_before:
                    raise Violation('terminal-mode-not-restored', 'terminal mode differs after the second interact()')
            # the sessions are over: what the logs hold now is what interact() logged
            for name in list(reclogs):
                setattr(child, name, None)
            # what the child got
            if esc_hit and not (case['child_exits'] and False):
                try:
                    os.write(child.child_fd, dialogue.END)
                except OSError:
                    pass
            t0 = time.time()
            while child.isalive() and time.time() - t0 < 10:
                # drain the child's leftover output raw (not through the decoder: interact() may have
                # consumed the first half of a character)
                r, _, _ = select.select([child.child_fd], [], [], 0.05)
                if r:
                    try:
                        if not os.read(child.child_fd, 65536):
                            break
                    except OSError:
                        break
            rec = ps.received()
            rec = rec.replace(dialogue.trig(0), b'', 1)
            rec = rec.replace(dialogue.trig(1), b'', 1)
            if rec.endswith(dialogue.END):
                rec = rec[:-len(dialogue.END)]
            if rec != want_child:
                k = 0
                while k < min(len(rec), len(want_child)) and rec[k] == want_child[k]:
                    k += 1
                raise Violation('typed-not-delivered' if len(rec) < len(want_child) else 'typed-extra-delivered',
                                'the child received %d bytes, %d precede the first escape character in the (filtered) typed stream; '
                                'first difference at %d: got %r, expected %r (escape mode %s)'
                                % (len(rec), len(want_child), k, rec[k:k + 12], want_child[k:k + 12], case['esc_mode']))
            # what the user saw
            out_all = b''.join(case['outs'])
            want_user = pending + (out_f(out_all) if out_f else out_all)
            got_user = b''.join(seen)
            full_output_expected = not esc_hit      # with an escape the session may end before all output was copied
            if second:
                full_output_expected = False     # already compared in full above
                want_user = all_out
            if full_output_expected:
                if got_user != want_user:
                    k = 0
                    while k < min(len(got_user), len(want_user)) and got_user[k] == want_user[k]:
                        k += 1
                    raise Violation('output-not-transparent', 'the user terminal received %d bytes, pending text + child output '
                                    'is %d bytes; first difference at %d: got %r, expected %r'
                                    % (len(got_user), len(want_user), k, got_user[k:k + 12], want_user[k:k + 12]))
            elif not want_user.startswith(got_user):
                raise Violation('output-not-transparent', 'the user terminal received %r..., not a prefix of pending text + child output'
                                % (got_user[:40],))
            # logs (C11): the transcript, in the string type of the mode
            if reclogs:
                T = str if text_mode else bytes
                for name, lg in reclogs.items():
                    for wv in lg.writes:
                        if not isinstance(wv, T):
                            raise Violation('log-type:' + name, 'during interact() %s received %r in %s mode' % (name, type(wv), T.__name__))
                    if not all(lg.flushed):
                        raise Violation('log-not-flushed:' + name, 'during interact() a write to %s was not flushed' % name)
                    joined = lg.joined(T())
                    shown = got_user[len(pending):]

                    def forms(b):
                        """acceptable renderings of the byte stream b in the log: the bytes themselves in bytes
                        mode; in unicode mode its incremental decoding (a trailing incomplete character may be
                        withheld or shown as a replacement character)"""
                        if not text_mode:
                            return [b]
                        import codecs
                        dec = codecs.getincrementaldecoder('utf-8')('replace')
                        a = dec.decode(b, False)
                        return [a, a + dec.decode(b'', True)]
                    if name == 'logfile_read' and joined not in forms(shown):
                        raise Violation('log-differs:logfile_read', 'logfile_read during interact() holds %r (%d), %d bytes were shown to the user'
                                        % (joined[:30], len(joined), len(shown)))
                    if name == 'logfile_send' and joined not in forms(want_child):
                        raise Violation('log-differs:logfile_send', 'logfile_send during interact() holds %r... (%d), the child was sent %r... (%d bytes)'
                                        % (joined[:30], len(joined), want_child[:30], len(want_child)))
                    if name == 'logfile':
                        lens = set(len(x) + len(y) for x in forms(shown) for y in forms(want_child))
                        if len(joined) not in lens:
                            raise Violation('log-differs:logfile', 'logfile during interact() holds %d characters; shown %d bytes + sent %d bytes'
                                            % (len(joined), len(shown), len(want_child)))
    finally:
        if case.get('storm'):
            try:
                storm_stop.set()
                storm_th.join(1)
                _signal.signal(_signal.SIGUSR1, saved_usr1)
            except NameError:
                pass
        if child is not None:
            peers.reap(child)
        if ps is not None:
            ps.cleanup()
        for fd in (um, us):
            try:
                os.close(fd)
            except OSError:
                pass
    both_sides = False
    if esc_hit:
        for p in case['pieces']:
            fp = in_f(p) if in_f else p
            if escape in fp and fp.index(escape) > 0 and fp.index(escape) < len(fp) - 1:
                both_sides = True
    nt = both_sides or len(typed) > 1000 or any(len(o) > 1000 for o in case['outs']) or bool(case['in_filter'] or case['out_filter'])
    if col is not None:
        col.label('escape=' + case['esc_mode'])
        if both_sides:
            col.label('escape-with-data-on-both-sides')
        if case['in_filter'] or case['out_filter']:
            col.label('filter')
        if logs:
            col.label('interact-with-logs')
        col.case(case, nt or bool(logs))


@st.composite
def orphan_cases(draw):
    return {'kind': 'orphan', 'text_mode': draw(st.booleans()), 'use_poll': draw(st.booleans()),
            'escape': draw(st.sampled_from(['default', 'none'])), 'first': draw(st.sampled_from([0.35, 0.5])),
            'filter': draw(st.booleans())}


def check_orphan(case, col=None):
    """interact() "also returns when the child exits" - even when the terminal does not hang up because a
    background job of the child (ignoring SIGHUP) keeps it open and goes on printing.  The job prints three lines
    well after the child has gone (each one wakes the copy loop) and then waits for a flag file; interact() must
    have returned by then, without a keystroke."""
    import tempfile
    import shutil
    tmp = tempfile.mkdtemp(prefix='c15o_')
    flag = os.path.join(tmp, 'flag')
    f = case['first']
    script = ("trap '' HUP; (sleep %.2f; echo late1; sleep 0.3; echo late2; sleep 0.3; echo late3; "
              "n=0; while [ ! -e %s ] && [ $n -lt 200 ]; do sleep 0.05; n=$((n+1)); done; echo released) & echo bye; sleep 0.1"
              % (f, flag))
    um, us = os.openpty()
    child = None
    try:
        distinctive_mode(us)
        with StdoutSwap(us):
            kw = {'timeout': 20, 'use_poll': case['use_poll']}
            if case['text_mode']:
                kw['encoding'] = 'utf-8'
            child = pexpect.spawn('/bin/sh', ['-c', script], **kw)
            child.STDIN_FILENO = us
            child.STDOUT_FILENO = us
            result = {}

            def run():
                try:
                    child.interact(escape_character=(None if case['escape'] == 'none' else chr(29)),
                                   output_filter=((lambda b: b) if case['filter'] else None))
                    result['ok'] = True
                except BaseException as e:      # noqa
                    result['exc'] = e
            th = threading.Thread(target=run, daemon=True)
            t0 = time.time()
            th.start()
            seen = []
            join_draining(th, um, seen, 4.0)
            el = time.time() - t0
            returned = not th.is_alive()
            open(flag, 'w').close()                 # release the background job in any case
            if not returned:
                join_draining(th, um, seen, 15)
            shown = b''.join(seen)
            if 'exc' in result:
                raise Violation('interact-raised:orphan', 'interact() raised %r' % (result['exc'],))
            if not returned:
                raise Violation('interact-did-not-return', 'interact() had not returned 4 s after the child exited although its '
                                'background job printed three lines in that time (shown so far: %r)' % shown[-60:])
            if b'bye' not in shown:
                raise Violation('output-not-transparent', 'the child\'s own output is missing: %r' % shown[:60])
    finally:
        try:
            open(flag, 'w').close()
        except OSError:
            pass
        if child is not None:
            peers.reap(child)
        for fd in (um, us):
            try:
                os.close(fd)
            except OSError:
                pass
        time.sleep(0.12)        # the released job sees the flag and leaves
        shutil.rmtree(tmp, ignore_errors=True)
    if col is not None:
        col.label('child-exits-terminal-stays-open')
        col.case(case, True)


@st.composite
def flood_cases(draw):
    return {'kind': 'flood', 'text_mode': draw(st.booleans()), 'use_poll': draw(st.booleans()),
            'typed': draw(st.sampled_from(['', 'q', 'hello'])), 'input_filter': draw(st.booleans())}


FLOOD_BLOCKS = 500


def check_flood(case, col=None):
    """"When the escape character is typed ... interact returns" - also while the child has output waiting at every
    turn of the copy loop (a build log, `yes`, a pager on a slow line).  The child writes FLOOD_BLOCKS blocks of 1000
    bytes and then a marker; the output filter is the slow side (4 ms per piece), so the child's descriptor is ready
    in every round.  The escape character is typed once 10 kB are on the screen: interact() must be back before
    the marker is shown, i.e. it may not copy the remaining ~490 kB first.  Bytes are counted, not seconds."""
    prog = ("import os,time\nb=b'x'*999+b'\\n'\nfor i in range(%d): os.write(1,b)\nos.write(1,b'FLOOD-END\\n')\ntime.sleep(20)\n"
            % FLOOD_BLOCKS)
    um, us = os.openpty()
    child = None
    try:
        distinctive_mode(us)
        with StdoutSwap(us):
            kw = {'timeout': 20, 'use_poll': case['use_poll']}
            if case['text_mode']:
                kw['encoding'] = 'utf-8'
            child = pexpect.spawn(sys.executable, ['-c', prog], **kw)
            child.STDIN_FILENO = us
            child.STDOUT_FILENO = us
            result = {}

            def slow(b):
                time.sleep(0.004)
                return b

            def run():
                try:
                    child.interact(escape_character=chr(29), output_filter=slow,
                                   input_filter=((lambda b: b) if case['input_filter'] else None))
                    result['ok'] = True
                except BaseException as e:      # noqa
                    result['exc'] = e
            th = threading.Thread(target=run, daemon=True)
            th.start()
            seen = []
            typed_at = None
            end = time.time() + 60
            while th.is_alive() and time.time() < end:
                drain(um, seen, 0.005)
                n = sum(len(x) for x in seen)
                if typed_at is None and n >= 10000:
                    os.write(um, case['typed'].encode() + b'\x1d')
                    typed_at = n
                if typed_at is not None and b'FLOOD-END' in b''.join(seen[-3:]):
                    break
                th.join(0.002)
            drain(um, seen, 0.05)
            shown = sum(len(x) for x in seen)
            returned = not th.is_alive()
            if 'exc' in result:
                raise Violation('interact-raised:flood', 'interact() raised %r' % (result['exc'],))
            if typed_at is None:
                if returned:
                    raise Violation('interact-returned-early', 'interact() returned after %d bytes of a %d byte flood, nothing '
                                    'was typed' % (shown, FLOOD_BLOCKS * 1000))
                raise HarnessError('flood: 10 kB were not shown within 60 s (%d bytes)' % shown)
            flooded = b'FLOOD-END' in b''.join(seen)[typed_at:]
            if not returned or flooded:
                child.kill(9)
                join_draining(th, um, seen, 10)
                raise Violation('escape-not-honoured-under-output', 'the escape character was typed when %d bytes were on the '
                                'screen; interact() went on to copy the rest of the child\'s output (%d bytes shown, end '
                                'marker included) without reading the keyboard' % (typed_at, shown))
    finally:
        if child is not None:
            peers.reap(child)
        for fd in (um, us):
            try:
                os.close(fd)
            except OSError:
                pass
    if col is not None:
        col.label('escape-typed-while-child-floods')
        col.case(case, True)


def run_shard(spec, seed, idx, deadline_ts):
    col = Collector()
    if spec.get('kind') == 'flood':
        def fbody(case, c):
            with case_watchdog(120, 'C15 interact, escape typed while the child floods'):
                check_flood(case, c)
        run_batches(fbody, flood_cases(), spec['n'], seed * 1000 + idx, col, batch=10, shrink=False, deadline_ts=deadline_ts)
        return col
    if spec.get('kind') == 'orphan':
        def obody(case, c):
            with case_watchdog(60, 'C15 interact, child exits, terminal stays open'):
                check_orphan(case, c)
        run_batches(obody, orphan_cases(), spec['n'], seed * 1000 + idx, col, batch=10, shrink=False, deadline_ts=deadline_ts)
        return col

    def body(case, c):
        with case_watchdog(150, 'C15 interact session'):
            check_case(case, c)
    run_batches(body, cases(), spec['n'], seed * 1000 + idx, col, batch=30, shrink=False, deadline_ts=deadline_ts)
    return col


def run_logging_shard(spec, seed, idx, deadline_ts):
    """C11 sub-tier: interact() sessions with recording logs attached."""
    col = Collector()

    def body(case, c):
        with case_watchdog(150, 'C11 interact session'):
            check_case(case, c, logs=case.get('logs'))
    run_batches(body, cases(want_logs=True), spec['n'], seed * 1000 + idx + 500, col, batch=30, shrink=False, deadline_ts=deadline_ts)
    return col


def replay_logging(case):
    check_case(case, logs=case.get('logs'))


def replay(case, spec=None):
    if case.get('kind') == 'orphan':
        return check_orphan(case)
    if case.get('kind') == 'flood':
        return check_flood(case)
    check_case(case, logs=case.get('logs'))


def _probe_repeated_escape():
    check_case({'text_mode': False, 'esc_mode': 'repeated', 'pieces': [b'a' + ESC + b'b' + ESC + b'c'], 'outs': [],
                'in_filter': None, 'out_filter': None, 'pending': b'', 'use_poll': False, 'child_exits': False})


PROBES = [('probe:repeated-escape', 'with the escape character typed twice in one read, the first one and the text after it are '
           'transmitted (typed a^]b^]c: the child gets a^]b)', _probe_repeated_escape)]
