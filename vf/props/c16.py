"""C16 REPLWrapper: each command returns exactly its own output.

Generated sequences (1-12 commands) over a command family whose output is
known by construction, run through pexpect.replwrap against real bash and
python REPLs, with run_command called directly or awaited:
  bash    printf '%s' W | echo W | head -c N /dev/zero | tr '\\0' x | true |
          multi-line for/do/done | incomplete: echo "abc , if true; then
  python  print('x'*N) | _ = sys.stdout.write(W) | pass | multi-line for block |
          incomplete: (1,
N from 0 to 300 KB; outputs never contain the prompt strings.

Oracle: run_command returns exactly the constructed output (\\n -> \\r\\n),
nothing from the previous or next command and no prompt text; incomplete input
raises ValueError and the *next* command still returns exactly its own output;
the awaited form returns the same values.
"""
import asyncio
import os
import sys
import time

from hypothesis import strategies as st

from ..common import Violation, Collector, run_batches, guard, case_watchdog

import pexpect
from pexpect import replwrap
from pexpect.exceptions import EOF, TIMEOUT

PROPERTY = 'C16'
RULE = ('Hypothesis-generated command sequences (1-12 commands: single-line, multi-line, no output, output without final '
        'newline, output of 0..300 KB, incomplete constructs) x {bash, python} x {run_command, awaited run_command} on '
        'real REPLs, one REPL per sequence (a third of the bash ones inherit a printing PROMPT_COMMAND); plus a REPL played by a scripted child that prints output and prompt in pieces '
        'cut at generated offsets (mostly inside the prompt; outputs contain prompt prefixes), maxread in {1, 7, 64, 2000}.  Non-trivial: >= 3 commands including an incomplete one, or an output > 64 KB '
        'followed by a small one, or (scripted) a prompt that arrived in pieces / maxread < 16.  Distinct by hash of the case.')
ASSUMPTIONS = [
    'the command family is chosen so that the REPL prints exactly the constructed output (python: results are bound to _ '
    'so that the REPL does not echo a value)',
    'one REPL process serves a whole sequence (bash needs about 3 s to start here)',
    'a TIMEOUT raised for incomplete input (replwrap gives the REPL a hard-coded 1 s to come back) counts only if the '
    'same command also fails to be rejected properly in a fresh REPL (3 attempts)',
]
BUDGET = {'quick': 280, 'thorough': 1500}
PROCS = 6      # replwrap resynchronises with a hard-coded 1 s timeout after SIGINT: do not starve the REPLs of CPU

WORDS = ['ab', 'hello world', 'x', 'A1-b2', 'two  spaces', '>>>', '$ ', 'PEXPECT', '[x]', '']      # no TAB: bash readline would complete on it


def shards(tier):
    q = tier == 'quick'
    return [{'n': 4 if q else 100} for _ in range(12)] + [{'kind': 'scripted', 'n': 60 if q else 1500} for _ in range(6)]


@st.composite
def cases(draw):
    repl = draw(st.sampled_from(['bash', 'python']))
    n = draw(st.integers(1, 12))
    cmds = []
    for _ in range(n):
        k = draw(st.integers(0, 11))
        if k <= 2:
            cmds.append(['word-nonl', draw(st.sampled_from(WORDS))])
        elif k <= 4:
            cmds.append(['word-nl', draw(st.sampled_from(WORDS))])
        elif k == 5:
            cmds.append(['silent'])
        elif k in (6, 7):
            cmds.append(['big', draw(st.sampled_from([0, 1, 999, 1000, 1001, 2000, 4096, 65536, 70000, 300000]))])
        elif k == 8:
            cmds.append(['loop', draw(st.integers(1, 4))])
        elif k == 9:
            cmds.append(['incomplete', draw(st.integers(0, 1))])
        elif k == 10:
            cmds.append(['blank-inside', draw(st.integers(0, 3))])      # incl. several complete statements in one command
        else:
            cmds.append(['big-nl', draw(st.sampled_from([0, 5, 1999, 2000, 2001, 70000]))])
    mode = draw(st.sampled_from(['sync', 'sync', 'async']))
    if repl == 'bash' and mode == 'sync' and draw(st.integers(0, 2)) == 0:
        # a command line longer than a terminal in canonical mode would accept (4095 bytes)
        cmds.insert(draw(st.integers(0, len(cmds))), ['long-line', draw(st.sampled_from([4200, 6000]))])
    # the environment the REPL's shell inherits: many distributions' profile files (and users) set a
    # PROMPT_COMMAND that prints something (a terminal title) before every prompt
    penv = draw(st.sampled_from([None, None, 'PROMPT_COMMAND'])) if repl == 'bash' else None
    return {'repl': repl, 'mode': mode, 'cmds': cmds, 'penv': penv}


def render(repl, c):
    """(command text, expected output or None for 'incomplete')"""
    kind = c[0]
    if repl == 'bash':
        if kind == 'word-nonl':
            return "printf '%%s' '%s'" % c[1], c[1]
        if kind == 'word-nl':
            return "echo '%s'" % c[1], c[1] + '\n'
        if kind == 'silent':
            return 'true', ''
        if kind == 'long-line':
            return 'echo ' + 'a' * c[1], 'a' * c[1] + '\n'
        if kind == 'big':
            return "head -c %d /dev/zero | tr '\\0' x" % c[1], 'x' * c[1]
        if kind == 'big-nl':
            return "head -c %d /dev/zero | tr '\\0' y; echo" % c[1], 'y' * c[1] + '\n'
        if kind == 'loop':
            return 'for i in %s\ndo echo "n$i"\ndone' % ' '.join(str(i) for i in range(c[1])), ''.join('n%d\n' % i for i in range(c[1]))
        if kind == 'blank-inside':
            # an interior empty line is part of the command (quoted string / here-document)
            return [('echo "a\n\nb"', 'a\n\nb\n'), ('cat <<EOF\none\n\n\ntwo\nEOF', 'one\n\n\ntwo\n'),
                    ('echo first\necho second', 'first\nsecond\n'), ("printf a\ntrue\nprintf b\necho c", 'abc\n')][c[1]]
        return ['echo "abc', 'if true; then'][c[1]], None
    if kind == 'word-nonl':
        return '_ = sys.stdout.write(%r)' % c[1], c[1]
    if kind == 'word-nl':
        return 'print(%r)' % c[1], c[1] + '\n'
    if kind == 'silent':
        return 'pass', ''
    if kind == 'big':
        return "_ = sys.stdout.write('x' * %d)" % c[1], 'x' * c[1]
    if kind == 'big-nl':
        return "print('y' * %d)" % c[1], 'y' * c[1] + '\n'
    if kind == 'loop':
        return 'for i in range(%d):\n    print("n%%d" %% i)\n' % c[1], ''.join('n%d\n' % i for i in range(c[1]))
    if kind == 'blank-inside':
        # a block closed by an empty line, followed by another statement
        return [('def f_():\n    return 7\n\nprint(f_())', '7\n'), ('for i in range(2):\n    print(i)\n\nprint("z")', '0\n1\nz\n'),
                ("print('p')\nprint('q')", 'p\nq\n'), ("_ = sys.stdout.write('m')\npass\nprint('n')", 'mn\n')][c[1]]
    return ['(1,', 'def f():'][c[1]], None


def confirm_incomplete_elsewhere(repl_name, mode, cmd, attempts=3):
    """True if, in a fresh REPL, `cmd` raises ValueError and the next command is clean (at least once in
    `attempts` tries): then a TIMEOUT seen for it under load does not reproduce."""
    for _ in range(attempts):
        try:
            repl = replwrap.bash() if repl_name == 'bash' else replwrap.python(sys.executable)
        except Exception:
            continue
        loop = asyncio.new_event_loop() if mode == 'async' else None
        try:
            try:
                if loop is None:
                    repl.run_command(cmd, timeout=30)
                else:
                    loop.run_until_complete(repl.run_command(cmd, timeout=30, async_=True))
            except ValueError:
                probe = 'true' if repl_name == 'bash' else 'pass'
                if repl.run_command(probe, timeout=30) == '':
                    return True
            except Exception:
                pass
        finally:
            try:
                repl.child.close(force=True)
            except Exception:
                pass
            if loop is not None:
                loop.close()
    return False


def check_case(case, col=None):
    repl_name = case['repl']
    with guard('starting the %s REPL' % repl_name, allow=()):
        if repl_name == 'bash':
            saved_pc = os.environ.get('PROMPT_COMMAND')
            if case.get('penv'):
                os.environ['PROMPT_COMMAND'] = 'printf "<title:%s>" "$PWD"'
            try:
                repl = replwrap.bash()
            finally:
                if saved_pc is None:
                    os.environ.pop('PROMPT_COMMAND', None)
                else:
                    os.environ['PROMPT_COMMAND'] = saved_pc
        else:
            repl = replwrap.python(sys.executable)
            repl.run_command('import sys')
    loop = asyncio.new_event_loop() if case['mode'] == 'async' else None
    feats = set()
    try:
        prev_big = False
        saw_incomplete = False
        for i, c in enumerate(case['cmds']):
            cmd, want = render(repl_name, c)
            where = 'command %d of %d (%s %s: %r)' % (i, len(case['cmds']), repl_name, case['mode'], cmd[:60])
            got = exc = None
            try:
                with guard(where, allow=(ValueError, EOF, TIMEOUT)):
                    if loop is None:
                        got = repl.run_command(cmd, timeout=30)
                    else:
                        got = loop.run_until_complete(repl.run_command(cmd, timeout=30, async_=True))
            except ValueError as e:
                exc = 'ValueError'
            except TIMEOUT:
                if want is None and confirm_incomplete_elsewhere(repl_name, case['mode'], cmd):
                    # replwrap allows the REPL 1 s to come back after cancelling incomplete input; a starved REPL
                    # misses that.  The same command was rejected properly in a fresh REPL: load, not logic.
                    if col is not None:
                        col.count('incomplete_timeouts_not_reproduced_in_fresh_repl')
                    return
                raise Violation('repl-timeout', '%s: TIMEOUT instead of a result (no prompt within the 30 s command timeout, or '
                                'within the 1 s allowed after cancelling incomplete input)' % where)
            except EOF:
                raise Violation('repl-eof', '%s: the REPL went away' % where)
            if want is None:
                if exc != 'ValueError':
                    raise Violation('incomplete-not-rejected', '%s returned %r instead of raising ValueError' % (where, got))
                saw_incomplete = True
                continue
            if exc is not None:
                raise Violation('complete-rejected', '%s raised %s' % (where, exc))
            want_tty = want.replace('\n', '\r\n')
            if got != want_tty:
                k = 0
                while k < min(len(got), len(want_tty)) and got[k] == want_tty[k]:
                    k += 1
                raise Violation('wrong-output' + (':after-incomplete' if saw_incomplete else ''),
                                '%s returned %d characters, its own output is %d characters; first difference at %d: got %r, '
                                'expected %r' % (where, len(got), len(want_tty), k, got[k:k + 40], want_tty[k:k + 40]))
            if saw_incomplete:
                feats.add('clean-after-incomplete')
            if prev_big and len(want) < 100:
                feats.add('small-after-big')
            prev_big = len(want) > 65536
    finally:
        try:
            repl.child.close(force=True)
        except Exception:
            pass
        if loop is not None:
            try:
                loop.run_until_complete(asyncio.sleep(0))
            except Exception:
                pass
            loop.close()
    nt = (len(case['cmds']) >= 3 and 'clean-after-incomplete' in feats) or 'small-after-big' in feats
    if col is not None:
        for f in feats:
            col.label(f)
        col.label('repl=%s/%s' % (repl_name, case['mode']))
        if case.get('penv'):
            col.label('inherited-PROMPT_COMMAND')
        col.count('commands', len(case['cmds']))
        col.case(case, nt)


# ---------------------------------------------------------------------------
# scripted REPL: the same oracle with the read boundaries under control

PIECES = ['a', 'b', ' ', '\r\n', '[', '[PEXPECT_', 'PEXPECT_PROMPT', '[PEXPECT_PROMP', '>', '+', 'PROMPT>', '\xe9', '\u20ac', 'caf\xe9', 'xyz' * 30]


@st.composite
def scripted_cases(draw):
    """A REPL played by a scripted child: for every command line it prints the constructed output and the prompt
    (the continuation prompt after a non-final line), cut into pieces at generated offsets - preferably inside the
    prompt - with a pause between the pieces so that each piece is a read of its own."""
    n = draw(st.integers(1, 5))
    cmds = []
    for _ in range(n):
        nlines = draw(st.sampled_from([1, 1, 1, 2, 3]))
        lines = []
        for j in range(nlines):
            out = ''.join(draw(st.lists(st.sampled_from(PIECES), min_size=0, max_size=6)))
            prompt = replwrap.PEXPECT_PROMPT if j == nlines - 1 else replwrap.PEXPECT_CONTINUATION_PROMPT
            full = out + prompt
            if full.find(replwrap.PEXPECT_PROMPT) not in (-1, len(out)) or full.find(replwrap.PEXPECT_CONTINUATION_PROMPT) not in (-1, len(out)):
                out = 'ok'
                full = out + prompt
            ncut = draw(st.integers(0, 3))
            cuts = sorted(set(draw(st.one_of(st.integers(len(out), len(full) - 1), st.integers(len(out), len(full) - 1),
                                             st.integers(0, len(full)))) for _ in range(ncut)))
            lines.append({'out': out, 'cuts': cuts})
        cmds.append(lines)
    return {'kind': 'scripted', 'cmds': cmds, 'mode': draw(st.sampled_from(['sync', 'sync', 'async'])),
            'maxread': draw(st.sampled_from([2000, 2000, 64, 7, 1])),
            # also cut after the first byte of (up to two) multi-byte characters of each output
            'midchar': draw(st.booleans()),
            # the REPL takes longer over every command than the spawn object's own default timeout allows; the
            # timeout given to run_command() is what counts
            'slow': draw(st.integers(0, 3)) == 0,
            # the scripted REPL leaves its terminal as it found it (canonical mode, ECHO on) instead of switching to raw
            # mode: REPLWrapper itself has to turn the echo off (it is given an existing spawn and no prompt change)
            'cooked': draw(st.integers(0, 3)) == 0}


def check_scripted(case, col=None):
    from ..engines import peers
    P, C = replwrap.PEXPECT_PROMPT, replwrap.PEXPECT_CONTINUATION_PROMPT
    cooked = bool(case.get('cooked'))
    actions = [['w', P.encode('utf-8').hex()]]
    for lines in case['cmds']:
        for j, ln in enumerate(lines):
            if cooked:
                ln['out'] = ln['out'].replace('\r\n', ' ')       # (the terminal would add a CR of its own)
            full = ln['out'] + (P if j == len(lines) - 1 else C)
            actions.append(['recuntil', b'\n'.hex()])
            if case.get('slow') and j == len(lines) - 1:
                actions.append(['s', 0.45])
            fullb = full.encode('utf-8')
            bcuts = set(len(full[:c].encode('utf-8')) for c in ln['cuts'])
            if case.get('midchar'):
                k = 0
                for pos, ch in enumerate(full):
                    if ord(ch) > 127 and k < 2:
                        bcuts.add(len(full[:pos].encode('utf-8')) + 1)
                        k += 1
            prev = 0
            for c in sorted(bcuts) + [len(fullb)]:
                if c > prev:
                    actions.append(['w', fullb[prev:c].hex()])
                    actions.append(['s', 0.012])
                    prev = c
    actions.append(['recuntil', b'\x00never\x00'.hex()])
    child, ps = peers.pty_peer(actions, raw=not cooked, record=False, wait_ready=False, encoding='utf-8', timeout=20,
                               maxread=case['maxread'])
    loop = asyncio.new_event_loop() if case['mode'] == 'async' else None
    split_inside = False
    try:
        with guard('REPLWrapper over an existing spawn', allow=()):
            repl = replwrap.REPLWrapper(child, P, None)
        if case.get('slow'):
            child.timeout = 0.25
        for i, lines in enumerate(case['cmds']):
            cmd = '\n'.join('line%d' % j for j in range(len(lines)))
            want = ''.join(ln['out'] for ln in lines)
            where = 'scripted REPL, command %d of %d (%d line(s), %s, maxread %d)' % (i, len(case['cmds']), len(lines), case['mode'], case['maxread'])
            try:
                with guard(where, allow=(EOF, TIMEOUT)):
                    Tcmd = None if (case.get('slow') and i % 2 == 1) else 10       # None: "wait for as long as it takes"
                    if loop is None:
                        got = repl.run_command(cmd, timeout=Tcmd)
                    else:
                        got = loop.run_until_complete(repl.run_command(cmd, timeout=Tcmd, async_=True))
            except TIMEOUT:
                raise Violation('repl-timeout', '%s: TIMEOUT, the prompt was printed (in pieces cut at %r)'
                                % (where, [ln['cuts'] for ln in lines]))
            except EOF:
                raise Violation('repl-eof', '%s: EOF' % where)
            if got != want:
                k = 0
                while k < min(len(got), len(want)) and got[k] == want[k]:
                    k += 1
                raise Violation('wrong-output', '%s returned %d characters, its own output is %d characters; first difference '
                                'at %d: got %r, expected %r' % (where, len(got), len(want), k, got[k:k + 40], want[k:k + 40]))
            for ln in lines:
                if any(len(ln['out']) < c for c in ln['cuts']):
                    split_inside = True
    finally:
        peers.reap(child)
        ps.cleanup()
        if loop is not None:
            try:
                loop.run_until_complete(asyncio.sleep(0))
            except Exception:
                pass
            loop.close()
    if col is not None:
        col.label('repl=scripted/%s' % case['mode'])
        if split_inside:
            col.label('prompt-arrives-in-pieces')
        col.count('commands', len(case['cmds']))
        col.case(case, split_inside or case['maxread'] < 16)


def run_shard(spec, seed, idx, deadline_ts):
    col = Collector()
    if spec.get('kind') == 'scripted':
        def sbody(case, c):
            with case_watchdog(120, 'C16 scripted REPL session'):
                check_scripted(case, c)
        run_batches(sbody, scripted_cases(), spec['n'], seed * 1000 + idx, col, batch=25, shrink=False, deadline_ts=deadline_ts)
        return col

    def body(case, c):
        with case_watchdog(400, 'C16 REPL session'):
            check_case(case, c)
    run_batches(body, cases(), spec['n'], seed * 1000 + idx, col, batch=10, shrink=False, deadline_ts=deadline_ts)
    return col


def replay(case, spec=None):
    if case.get('kind') == 'scripted':
        return check_scripted(case)
    check_case(case)


PROBES = []
