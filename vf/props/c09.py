"""C09 Exit status truth: exitstatus / signalstatus are the child's real fate.

Real children whose fate is known by construction - `sh -c 'exit N'`,
`sh -c 'kill -SIG $$'` (core dumps disabled), or a sleeping child killed by
the harness through child.kill(sig) / terminate() / close() - observed through
generated histories over {isalive polling, wait, close, terminate,
expect(EOF)+isalive, read to EOF}, on pty children, PopenSpawn children
(wait()) and run(..., withexitstatus=True).  Truth is never obtained by
calling waitpid ourselves.

Oracle: after the first observation exactly one of exitstatus/signalstatus is
set and equals the truth; os.WIFEXITED/WEXITSTATUS/WIFSIGNALED/WTERMSIG of
`status` agree (pty); terminated is True; wait()/run() return the code; all
four values are identical after every further operation.
"""
import os
import signal
import time

from hypothesis import strategies as st

from ..common import Violation, Collector, run_batches, guard, case_watchdog

import pexpect
from pexpect.popen_spawn import PopenSpawn
from pexpect.exceptions import EOF, TIMEOUT

PROPERTY = 'C09'
RULE = ('Hypothesis-generated (fate, way of dying, observation history of 1-5 operations with repeats, transport) on '
        'real children: exit codes 0..255, 18 terminating signals, self-inflicted or sent through kill()/terminate()/'
        'close(), or met after a close(force=False) that the child refused (it ignores HUP/INT); pty (a quarter started the pxssh way, spawn(None) then _spawn()), PopenSpawn and run().  Thorough adds the exhaustive product: all 256 exit codes x 6 first '
        'observers and all signals x 6 first observers.  Non-trivial: a code outside {0,1} or a signal, observed '
        'through >= 2 operations.  Distinct by hash of the case.')
ASSUMPTIONS = [
    'truth is the fate the child command was constructed to have; sh is dash/bash executing exit N / kill -S $$',
    'PopenSpawn documents no `status`; only exitstatus/signalstatus/terminated/wait() are compared there',
]
BUDGET = {'quick': 240, 'thorough': 1500}
EXHAUSTIVE_NOTE = 'all 256 exit codes x 6 first observers and 18 signals x 6 first observers (pty), plus all codes/signals on PopenSpawn.wait() and run()'

SIGS = ['HUP', 'INT', 'QUIT', 'ILL', 'TRAP', 'ABRT', 'BUS', 'FPE', 'KILL', 'USR1', 'SEGV', 'USR2', 'ALRM', 'TERM',
        'XCPU', 'VTALRM', 'PROF', 'SYS']      # PIPE and XFSZ are ignored by Python and inherited as ignored by pty children
OBSERVERS = ['isalive', 'wait', 'close', 'terminate', 'expect_eof', 'read', 'eof_only']      # eof_only: a read that hit EOF, nothing else


def shards(tier):
    q = tier == 'quick'
    out = [{'kind': 'rand', 'n': 200 if q else 500} for _ in range(16)]
    if not q:
        out = [{'kind': 'sweep', 'part': k, 'parts': 16} for k in range(16)] + out
    return out


@st.composite
def cases(draw):
    transport = draw(st.sampled_from(['pty', 'pty', 'pty', 'popen', 'run']))
    if draw(st.booleans()):
        fate = ['exit', draw(st.one_of(st.integers(0, 255), st.sampled_from([0, 1, 2, 127, 128, 255])))]
        how = 'self'
    else:
        fate = ['signal', draw(st.sampled_from(SIGS))]
        how = draw(st.sampled_from(['self', 'self', 'kill'] + (['terminate', 'close', 'terminate-stubborn', 'close-stubborn']
                                                               if transport == 'pty' else [])))
        if how in ('terminate', 'close'):
            fate = ['signal', 'HUP']
        if how in ('terminate-stubborn', 'close-stubborn'):
            fate = ['signal', 'KILL']        # the child ignores HUP and INT: only the forced stage ends it
    if transport == 'run':
        how = 'self'
    n = draw(st.integers(1, 5))
    hist = [draw(st.sampled_from(OBSERVERS)) for _ in range(n)]
    if transport == 'pty' and how == 'self' and draw(st.integers(0, 5)) == 0:
        # the child leaves a background job behind that ignores SIGHUP and keeps the terminal open (and silent):
        # no hang-up, the death is only visible through pexpect's own liveness checks
        how = 'self-orphan'
    elif transport == 'pty' and draw(st.integers(0, 5)) == 0:
        # close(force=False) is refused by a child that ignores HUP and INT; the child then meets its fate
        # (TERM -> exit N through a trap, or another signal) and is observed through the history
        how = 'close-refused'
        if fate[0] == 'signal' and fate[1] in ('HUP', 'INT'):
            fate = ['signal', 'KILL']
        hist = [draw(st.sampled_from(['isalive', 'wait', 'close', 'close', 'terminate'])) for _ in range(n)]
    # the child prints a line before it meets its fate: its last output and the hang-up are then picked up together
    # 'deferred': the object is made first (spawn(None)) and the child started later, the way pxssh.login() does it
    return {'transport': transport, 'fate': fate, 'how': how, 'history': hist, 'talk': draw(st.booleans()),
            'form': draw(st.sampled_from(['direct', 'direct', 'direct', 'deferred']))}


def command(fate, how, talk=False):
    if how == 'close-refused':
        tail = "trap 'exit %d' TERM; " % fate[1] if fate[0] == 'exit' else ''
        return ['/bin/sh', '-c', "trap '' HUP INT; %secho READY; while :; do sleep 0.02; done" % tail]
    if how.endswith('-stubborn'):
        return ['/bin/sh', '-c', "trap '' HUP INT; exec sleep 300"]
    if how == 'self-orphan':
        tail = 'exit %d' % fate[1] if fate[0] == 'exit' else 'ulimit -c 0; kill -%s $$; sleep 5' % fate[1]
        return ['/bin/sh', '-c', "trap '' HUP; sleep 2 & trap - HUP; %s" % tail]
    if how != 'self':
        return ['/bin/sh', '-c', 'exec sleep 300']
    pre = 'echo bye; ' if talk else ''
    if fate[0] == 'exit':
        return ['/bin/sh', '-c', pre + 'exit %d' % fate[1]]
    return ['/bin/sh', '-c', pre + 'ulimit -c 0; kill -%s $$; sleep 5' % fate[1]]


def truth(fate):
    if fate[0] == 'exit':
        return fate[1], None
    return None, int(getattr(signal, 'SIG' + fate[1]))


def wait_zombie(pid, limit=10.0):
    """Wait (without reaping) until the kernel shows the process as a zombie:
    its fate is sealed, so observing it cannot race with it."""
    t0 = time.time()
    while time.time() - t0 < limit:
        try:
            with open('/proc/%d/stat' % pid) as f:
                st_ = f.read()
            if st_[st_.rindex(')') + 2] == 'Z':
                return True
        except (OSError, ValueError):
            return True         # already gone
        time.sleep(0.002)
    return False


def snapshot(child, with_status):
    t = (child.exitstatus, child.signalstatus, child.terminated)
    if with_status:
        t = t + (child.status,)
    return t


def judge(child, fate, where, with_status=True):
    ex, sg = truth(fate)
    if child.exitstatus != ex or child.signalstatus != sg:
        raise Violation('wrong-status', '%s: exitstatus=%r signalstatus=%r, the child %s'
                        % (where, child.exitstatus, child.signalstatus,
                           'exited with %d' % ex if ex is not None else 'was killed by signal %d' % sg))
    if child.terminated is not True:
        raise Violation('terminated-flag', '%s: terminated is %r after the death was observed' % (where, child.terminated))
    if with_status:
        st_ = child.status
        if st_ is None:
            raise Violation('status-undecodable', '%s: status is None' % where)
        if ex is not None and not (os.WIFEXITED(st_) and os.WEXITSTATUS(st_) == ex):
            raise Violation('status-undecodable', '%s: status %r does not decode to exit code %d' % (where, st_, ex))
        if sg is not None and not (os.WIFSIGNALED(st_) and os.WTERMSIG(st_) == sg):
            raise Violation('status-undecodable', '%s: status %r does not decode to signal %d' % (where, st_, sg))


def check_pty(case, col=None):
    fate, how = case['fate'], case['how']
    cmd = command(fate, how, case.get('talk', False))
    if case.get('form') == 'deferred':
        child = pexpect.spawn(None, timeout=20)
        child._spawn(cmd[0], cmd[1:])
    else:
        child = pexpect.spawn(cmd[0], cmd[1:], timeout=20)
    g_ = case.get('_grace')
    child.delayafterterminate = g_ or 0.02
    child.ptyproc.delayafterterminate = g_ or 0.02
    child.ptyproc.delayafterclose = g_ or 0.02
    closed = False
    try:
        if how == 'kill':
            with guard('kill'):
                child.kill(int(getattr(signal, 'SIG' + fate[1])))
        elif how in ('terminate', 'terminate-stubborn'):
            if how == 'terminate-stubborn':
                time.sleep(0.05)         # let sh install the trap and exec
                child.delayafterterminate = g_ or 0.1
            with guard('terminate(force=True)'):
                r = child.terminate(force=True)
            if r is not True:
                raise Violation('terminate-failed', 'terminate(force=True) returned %r on a sleeping child' % (r,))
        elif how in ('close', 'close-stubborn'):
            if how == 'close-stubborn':
                time.sleep(0.05)
                child.ptyproc.delayafterterminate = g_ or 0.1
            with guard('close()'):
                child.close()
            closed = True
        elif how == 'close-refused':
            try:
                with guard('expect READY', allow=(EOF, TIMEOUT)):
                    child.expect('READY')
            except (EOF, TIMEOUT):
                # the child never got as far as installing its traps (a starved machine): the history did not happen
                if col is not None:
                    col.label('close-not-refused')
                    col.discarded += 1
                return
            refused = False
            with guard('close(force=False)', allow=(pexpect.ExceptionPexpect,)):
                try:
                    child.close(force=False)
                except pexpect.ExceptionPexpect:
                    refused = True
            closed = True
            if not refused or child.terminated:
                if col is not None:
                    col.label('close-not-refused')
                return          # nothing to observe: the precondition of this history was not reached
            os.kill(child.pid, signal.SIGTERM if fate[0] == 'exit' else int(getattr(signal, 'SIG' + fate[1])))
        if how in ('self', 'kill', 'close-refused', 'self-orphan'):
            if not wait_zombie(child.pid):
                raise Violation('harness-child-did-not-die', 'the child %r is not a zombie after 10 s' % (cmd,))
        observed = how in ('terminate', 'close', 'terminate-stubborn', 'close-stubborn')
        prev = None
        if observed:
            judge(child, fate, 'directly after %s() returned' % how.split('-')[0])
            prev = snapshot(child, True)
        ex, sg = truth(fate)
        for i, op in enumerate(case['history']):
            where = 'operation %d (%s) of %r' % (i, op, case['history'])
            with guard(where, allow=(EOF, TIMEOUT)):
                if op == 'isalive':
                    t0 = time.time()
                    while child.isalive():
                        if time.time() - t0 > 15:
                            raise Violation('still-alive', '%s: isalive() still True 15 s after the child was told to die' % where)
                        time.sleep(0.005)
                elif op == 'wait':
                    r = child.wait()
                    if r != ex:
                        raise Violation('wait-return', '%s: wait() returned %r, exit code is %r' % (where, r, ex))
                elif op == 'close':
                    child.close()
                    closed = True
                elif op == 'terminate':
                    r = child.terminate(force=True)
                    if r is not True:
                        raise Violation('terminate-failed', '%s: terminate(force=True) returned %r' % (where, r))
                elif op == 'expect_eof':
                    if closed:
                        continue
                    child.expect(EOF)
                    t0 = time.time()
                    while child.isalive():
                        if time.time() - t0 > 15:
                            raise Violation('still-alive', '%s: alive 15 s after EOF' % where)
                        time.sleep(0.005)
                elif op == 'eof_only':
                    if closed:
                        continue
                    child.expect(EOF)
                elif op == 'read':
                    if closed:
                        continue
                    child.read()
                    # a read that hit EOF lets pexpect observe the death (read_nonblocking calls isalive)
                    if child.terminated is not True:
                        t0 = time.time()
                        while child.isalive():
                            if time.time() - t0 > 15:
                                raise Violation('still-alive', '%s: alive 15 s after EOF' % where)
                            time.sleep(0.005)
            judge(child, fate, where)
            now = snapshot(child, True)
            if prev is not None and now != prev:
                raise Violation('status-changed', '%s: (exitstatus, signalstatus, terminated, status) changed from %r to %r'
                                % (where, prev, now))
            prev = now
    finally:
        try:
            child.close(force=True)
        except Exception:
            try:
                os.kill(child.pid, signal.SIGKILL)
                os.waitpid(child.pid, 0)
            except Exception:
                pass


def check_popen(case, col=None):
    fate, how = case['fate'], case['how']
    cmd = command(fate, how)
    child = PopenSpawn(cmd, timeout=20)
    try:
        if how == 'kill':
            with guard('PopenSpawn.kill'):
                child.kill(int(getattr(signal, 'SIG' + fate[1])))
        ex, sg = truth(fate)
        prev = None
        wait_zombie(child.pid)
        for i, op in enumerate(case['history'] or ['wait']):
            where = 'PopenSpawn operation %d (%s)' % (i, 'wait' if op in ('wait', 'isalive', 'close', 'terminate') else op)
            with guard(where, allow=(EOF, TIMEOUT)):
                if op in ('expect_eof', 'read'):
                    child.expect(EOF)
                    continue
                r = child.wait()
            want = ex if ex is not None else -sg
            if r != want:
                raise Violation('wait-return', '%s: wait() returned %r, expected %r' % (where, r, want))
            judge(child, fate, where, with_status=False)
            now = snapshot(child, False)
            if prev is not None and now != prev:
                raise Violation('status-changed', '%s: status attributes changed from %r to %r' % (where, prev, now))
            prev = now
        if prev is None:
            r = child.wait()
            judge(child, fate, 'PopenSpawn final wait()', with_status=False)
    finally:
        try:
            if child.proc.poll() is None:
                child.proc.kill()
            child.proc.wait()
            child.proc.stdin.close()
            child.proc.stdout.close()
        except Exception:
            pass


def check_run(case, col=None):
    fate = case['fate']
    cmd = command(fate, 'self')
    line = "/bin/sh -c '%s'" % cmd[2]
    # the same with an event table: EOF as an event key (the loop ends through the callback, not through the EOF
    # exception), in dict and list form, chosen by the history
    variant = len(case.get('history') or []) % 3
    kw = {}
    if variant == 1:
        kw['events'] = {pexpect.EOF: (lambda d: True)}
    elif variant == 2:
        kw['events'] = [('never-printed-by-the-child', 'x\n'), (pexpect.EOF, (lambda d: True))]
    with guard('run(withexitstatus=True)'):
        out, status = pexpect.run(line, withexitstatus=True, timeout=20, **kw)
    ex, sg = truth(fate)
    if status != ex:
        raise Violation('run-status', 'run(%r, withexitstatus=True%s) returned status %r, the child %s'
                        % (line, ', events with an EOF key' if kw else '', status, 'exited with %d' % ex if ex is not None else 'was killed by signal %d (exit status None)' % sg))
    with guard('run()'):
        out2 = pexpect.run(line, timeout=20)
    if not isinstance(out2, bytes):
        raise Violation('run-return', 'run() without withexitstatus returned %r' % (type(out2),))


def check_case(case, col=None):
    tr = case['transport']
    if tr == 'pty':
        try:
            check_pty(case, col)
        except Violation as v:
            # the harness shortens pexpect's waits after each signal to 20 ms (100 ms for stubborn children); on a
            # starved machine a child can need longer to die, and terminate()/close() then give up as documented:
            # such a history is repeated once with a 1.5 s wait before it is reported
            slow_death = (v.key in ('terminate-failed', 'still-alive', 'harness-child-did-not-die')
                          or 'Could not terminate the child' in v.what)      # close(): the same giving up, as an exception
            if not slow_death or case.get('_grace'):
                raise
            if col is not None:
                col.count('repeated_with_longer_delayafterterminate')
            check_pty(dict(case, _grace=1.5), None)
    elif tr == 'popen':
        check_popen(case, col)
    else:
        check_run(case, col)
    fate = case['fate']
    nt = (fate[0] == 'signal' or fate[1] not in (0, 1)) and (len(case['history']) >= 2 or tr == 'run')
    if col is not None:
        col.label('transport=' + tr)
        col.label('fate=' + fate[0])
        col.label('how=' + case['how'])
        if case.get('form') == 'deferred' and tr == 'pty':
            col.label('form=spawn(None)+_spawn')
        col.case(case, nt)


def run_sweep(spec, col, deadline_ts):
    jobs = []
    for first in OBSERVERS:
        for code in range(256):
            jobs.append({'transport': 'pty', 'fate': ['exit', code], 'how': 'self', 'history': [first, 'isalive']})
        for s in SIGS:
            jobs.append({'transport': 'pty', 'fate': ['signal', s], 'how': 'self', 'history': [first, 'wait']})
    for code in range(256):
        jobs.append({'transport': 'popen', 'fate': ['exit', code], 'how': 'self', 'history': ['wait', 'wait']})
        jobs.append({'transport': 'run', 'fate': ['exit', code], 'how': 'self', 'history': []})
    for s in SIGS:
        jobs.append({'transport': 'popen', 'fate': ['signal', s], 'how': 'self', 'history': ['wait']})
        jobs.append({'transport': 'run', 'fate': ['signal', s], 'how': 'self', 'history': []})
    n = 0
    for j, case in enumerate(jobs):
        if j % spec['parts'] != spec['part']:
            continue
        if deadline_ts and time.time() > deadline_ts:
            col.inconclusive = True
            col.count('exhaustive_cases_partial', n)
            return
        n += 1
        try:
            with case_watchdog(120, 'C09 child'):
                check_case(case, col)
        except Violation as v:
            col.fail(v.key, v.what, case)
            if len(col.failures) >= 4:
                return
    col.count('exhaustive_cases', n)


def run_shard(spec, seed, idx, deadline_ts):
    col = Collector()
    if spec['kind'] == 'sweep':
        run_sweep(spec, col, deadline_ts)
        return col

    def body(case, c):
        with case_watchdog(120, 'C09 child'):
            check_case(case, c)
    run_batches(body, cases(), spec['n'], seed * 1000 + idx, col, batch=50, shrink=False, deadline_ts=deadline_ts)
    return col


def replay(case, spec=None):
    check_case(case)


PROBES = []
