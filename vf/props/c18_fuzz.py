"""atheris (libFuzzer) target for C18: bytes -> (screen size, encoding, token
indices, cut points) through a fixed token table; the C18 oracles run inside
the target; a fresh emulator per input (no state leaks between iterations).

Run:  python -m vf.props.c18_fuzz <corpus dir> [libFuzzer options]
"""
import os
import sys

ESC = '\x1b'


def token_table(rows, cols):
    P = ['0', '1', '2', str(rows), str(cols), str(rows + 1), str(cols + 1), '9999999999']
    t = ['a', 'b', ' ', '\xe9', '\r', '\n', '\x08', '\x00', '\t']
    t += [ESC + c for c in '78M><=DEHcx'] + [ESC + ESC]
    t += [ESC + a + b for a in '()#' for b in 'A0x']
    t += [ESC + '[' + c for c in 'HDBCAJKrmsux']
    for p in P:
        t += [ESC + '[' + p + c for c in 'DBCAJKlmqhx']
        t += [ESC + '[?' + p + c for c in 'hlx']
        t += [ESC + '[' + p + ';' + c for c in 'mHx']
        for q in P[:6]:
            t += [ESC + '[' + p + ';' + q + c for c in 'Hfrmqx']
    t += [ESC + '[1;2;3' + c for c in 'mqHx'] + [ESC + '[1;2;;m']
    t += [ESC, ESC + '[', ESC + '[1', ESC + '[1;', ESC + '[1;2', ESC + '[1;2;', ESC + '(', ESC + '#', ESC + '[?', ESC + '[?4']
    return t


ENCS = [None, 'latin-1', 'utf-8', 'cp437']


def decode_case(data):
    """Deterministic bytes -> case mapping (used both by the target and to
    turn a crash file into a replayable case)."""
    b = list(data)
    if len(b) < 3:
        b += [0] * (3 - len(b))
    rows = 1 + b[0] % 4
    cols = 1 + (b[0] // 4) % 5
    enc = ENCS[b[1] % 4]
    ncuts = b[2] % 4
    cuts_raw = b[3:3 + ncuts]
    rest = b[3 + ncuts:]
    table = token_table(rows, cols)
    toks = []
    i = 0
    while i + 1 < len(rest) and len(toks) < 40:
        toks.append(table[(rest[i] * 256 + rest[i + 1]) % len(table)])
        i += 2
    if enc in ('latin-1', 'cp437'):
        toks = [t.encode(enc, 'replace').decode(enc) for t in toks]
    text = ''.join(toks)
    total = len(text.encode(enc)) if enc else len(text)
    cuts = sorted(set((c * 7) % (total + 1) for c in cuts_raw)) if total else []
    return {'rows': rows, 'cols': cols, 'enc': enc, 'tokens': toks, 'cuts': cuts}


def write_seed_corpus(corpus):
    """A few small valid inputs: token sequences cut from the repository's
    recorded sessions are not representable through the table, so the seeds
    are table index sequences exercising each family once."""
    table = token_table(2, 3)
    fams = [[0, 4, 5], list(range(9, 21)), list(range(30, 42)), [len(table) - k for k in range(1, 11)],
            list(range(42, 70, 3)), list(range(100, 160, 7))]
    for n, fam in enumerate(fams):
        body = bytes([5, n % 4, 1, 3]) + b''.join(bytes([i // 256, i % 256]) for i in fam)
        with open(os.path.join(corpus, 'seed%d' % n), 'wb') as f:
            f.write(body)


def main():
    import warnings
    warnings.simplefilter('ignore')
    import atheris
    with atheris.instrument_imports(include=['pexpect']):
        import pexpect.ANSI  # noqa
        import pexpect.screen  # noqa
        import pexpect.FSM  # noqa
    from vf.props import c18

    def target(data):
        case = decode_case(data)
        if not case['tokens']:
            return
        c18.check_case(case)        # raises Violation -> libFuzzer records a crash file

    atheris.Setup(sys.argv, target)
    atheris.Fuzz()


if __name__ == '__main__':
    main()
