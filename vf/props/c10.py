"""C10 Lifecycle safety: no stale handles, no leaks, no lying about liveness.

Model-based testing over real children.  Generated sequences (<= 12 steps) of
{isalive, wait, kill(sig), terminate(False/True), close(False/True), sendeof,
expect(EOF, short timeout), send, read, leave-with-by-exception, del+gc,
grab-low-fds} on children with dispositions {normal, ignores HUP+INT, stopped,
stopped+ignoring, already exited, exits mid-sequence}; fdspawn and SocketSpawn
get their own rule subsets (including "descriptor closed elsewhere").

Invariants after every step (truth from /proc/<pid>/stat; ppid and start time
rule out pid reuse; we never reap the child ourselves):
 * isalive() returned True  => the process still exists;
 * isalive() returned False, or terminated is True => the process is gone
   (it was reaped, so it was really dead);
 * after terminate(force=True) returned / after close() returned normally the
   process is gone, whatever its disposition; a second close() is a no-op;
 * after the object was closed or dropped the number of open descriptors is
   back to the pre-spawn value and no zombie of ours is left;
 * once the descriptor has been released every I/O method raises (ValueError /
   OSError / ExceptionPexpect) and no byte reaches, and nothing is read from,
   the decoy sockets that now own the old descriptor number.
"""
import gc
import os
import signal
import socket
import time

from hypothesis import strategies as st

from ..common import Violation, Collector, run_batches, guard, case_watchdog

import pexpect
from pexpect import fdpexpect, socket_pexpect
from pexpect.exceptions import EOF, TIMEOUT, ExceptionPexpect

PROPERTY = 'C10'
RULE = ('Hypothesis-generated operation sequences (<= 12 steps) x child disposition {normal, ignores HUP+INT, ignores HUP only, stopped, '
        'stopped+ignoring, already exited, exits mid-sequence} on pty children, and the fd/socket rule subsets on '
        'fdspawn/SocketSpawn (a quarter of the fdspawn objects own descriptor number 0); invariants checked against /proc after every step; decoy socketpairs (pre-loaded with '
        'sentinel bytes) grab the released descriptor number before I/O is retried.  Non-trivial: >= 3 lifecycle '
        'operations including one after the child died or one after close.  Distinct by hash of the case.')
ASSUMPTIONS = [
    'truth about the process comes from /proc/<pid>/stat (state, ppid, start time); the harness never calls waitpid on it',
    'wait() is only generated when the child has been told to die (a blocking wait on an immortal child is documented)',
    'delayafterterminate stays at its default 0.1 s; a history whose failure could be a SIGKILLed child that needed longer than '
    'that to become reapable (starved machine) is repeated once with 1.5 s before it is reported',
    'dropping the last reference must reclaim the object without the cyclic collector only in histories in which no '
    'exception was raised (an exception traceback legitimately references the object until it is collected)',
]
BUDGET = {'quick': 280, 'thorough': 1500}

SENTINEL = b'DECOY-SENTINEL'


def shards(tier):
    q = tier == 'quick'
    return [{'kind': 'pty', 'n': 45 if q else 300} for _ in range(12)] + [{'kind': 'fdsock', 'n': 400 if q else 2000} for _ in range(4)]


# ---------------------------------------------------------------------------
# /proc helpers

def proc_stat(pid):
    """(state, ppid, starttime) or None"""
    try:
        with open('/proc/%d/stat' % pid) as f:
            s = f.read()
    except OSError:
        return None
    try:
        rest = s[s.rindex(')') + 2:].split()
        return rest[0], int(rest[1]), int(rest[19])
    except (ValueError, IndexError):
        return None


def nfds():
    return len(os.listdir('/proc/self/fd'))


class Proc(object):
    def __init__(self, pid):
        self.pid = pid
        st_ = proc_stat(pid)
        self.start = st_[2] if st_ else None

    def exists(self):
        st_ = proc_stat(self.pid)
        return st_ is not None and st_[1] == os.getpid() and st_[2] == self.start

    def state(self):
        st_ = proc_stat(self.pid)
        if st_ is None or st_[1] != os.getpid() or st_[2] != self.start:
            return None
        return st_[0]

    def wait_state(self, states, limit=5.0):
        t0 = time.time()
        while time.time() - t0 < limit:
            s = self.state()
            if s in states:
                return True
            time.sleep(0.003)
        return False


class Decoys(object):
    """socketpairs opened right after a descriptor was released: one of their
    ends takes the lowest free number.  Both ends hold a sentinel."""

    def __init__(self, n=3):
        self.pairs = []
        for _ in range(n):
            a, b = socket.socketpair()
            a.setblocking(False)
            b.setblocking(False)
            a.send(SENTINEL)
            b.send(SENTINEL)
            self.pairs.append((a, b))

    def numbers(self):
        return [s.fileno() for p in self.pairs for s in p]

    def check(self, where):
        for a, b in self.pairs:
            for s in (a, b):
                try:
                    d = s.recv(65536)
                except BlockingIOError:
                    d = b''
                except OSError as e:
                    raise Violation('decoy-touched', '%s: the unrelated descriptor %d was closed or shut down (%s)'
                                    % (where, s.fileno(), e))
                if d != SENTINEL:
                    raise Violation('decoy-touched', '%s: an unrelated descriptor that took the old number %s: expected the '
                                    'sentinel, found %r (bytes were %s)' % (where, self.numbers(), d[:40],
                                                                         'stolen' if len(d) < len(SENTINEL) else 'written to it'))
                # put the sentinel back for the next check
                other = b if s is a else a
                other.send(SENTINEL)

    def close(self):
        for a, b in self.pairs:
            for s in (a, b):
                try:
                    s.close()
                except OSError:
                    pass


# ---------------------------------------------------------------------------
# pty children

# 'hup-deaf': ignores the hang-up only - the second rung of the signal ladder (SIGINT) is the one that ends it
DISPOSITIONS = ['normal', 'normal', 'ignore', 'ignore+term', 'stopped', 'stopped+ignore', 'exited', 'exits-soon', 'hup-deaf']
OPS = ['isalive', 'isalive', 'wait', 'kill-TERM', 'kill-KILL', 'kill-0', 'kill-CONT', 'terminate', 'terminate-force',
       'close', 'close', 'close-noforce', 'sendeof', 'expect-eof', 'send', 'read', 'with-exc', 'del', 'grab-fds']


@st.composite
def pty_cases(draw):
    return {'disposition': draw(st.sampled_from(DISPOSITIONS)),
            'ops': draw(st.lists(st.sampled_from(OPS), min_size=1, max_size=12)),
            'use_poll': draw(st.booleans())}


def spawn_child(disp, use_poll):
    if disp in ('normal', 'stopped'):
        child = pexpect.spawn('cat', timeout=5, use_poll=use_poll)
    elif disp in ('ignore', 'stopped+ignore'):
        child = pexpect.spawn('/bin/sh', ['-c', "trap '' HUP INT; exec sleep 300"], timeout=5, use_poll=use_poll)
    elif disp == 'ignore+term':
        child = pexpect.spawn('/bin/sh', ['-c', "trap '' HUP INT TERM QUIT; exec sleep 300"], timeout=5, use_poll=use_poll)
    elif disp == 'hup-deaf':
        child = pexpect.spawn('/bin/sh', ['-c', "trap '' HUP; exec sleep 300"], timeout=5, use_poll=use_poll)
    elif disp == 'exited':
        child = pexpect.spawn('/bin/true', timeout=5, use_poll=use_poll)
    else:
        child = pexpect.spawn('/bin/sh', ['-c', 'sleep 0.15'], timeout=5, use_poll=use_poll)
    return child


def io_after_release(child, decoys, where):
    """Every I/O method must fail with an error and leave the decoys alone.  (A function of its own: no
    closure or traceback may keep the spawn object alive, the sequence may drop it next.)"""
    calls = (('send', lambda: child.send(b'STRAY-WRITE')),
             ('sendline', lambda: child.sendline(b'STRAY')),
             ('read_nonblocking', lambda: child.read_nonblocking(100, 0.01)),
             ('expect', lambda: child.expect(b'never', timeout=0.01)),
             ('sendeof', lambda: child.sendeof()),
             ('setwinsize', lambda: child.setwinsize(10, 10)))
    for name, fn in calls:
        outcome = None
        try:
            with guard('%s after the descriptor was released' % name, allow=(ExceptionPexpect, OSError, ValueError)):
                fn()
            outcome = 'returned normally'
        except (ExceptionPexpect, OSError, ValueError) as e:
            if isinstance(e, TIMEOUT) and name in ('read_nonblocking', 'expect'):
                outcome = 'polled and timed out'
        decoys.check('%s: %s() after the descriptor was released' % (where, name))
        if outcome is not None:
            raise Violation('io-after-release', '%s: %s() after the descriptor was released %s instead of failing with an error'
                            % (where, name, outcome))


class KillWatch(object):
    """Stands in for `os` inside pexpect.pty_spawn and ptyprocess.ptyprocess: a signal sent to the
    child's pid after the child has been reaped would hit whatever process owns that pid now."""

    def __init__(self):
        self.proc = None
        self.stray = []

    def __getattr__(self, name):
        return getattr(os, name)

    def kill(self, pid, sig):
        if self.proc is not None and pid == self.proc.pid and not self.proc.exists():
            self.stray.append(sig)
        return os.kill(pid, sig)


TIMING_KEYS = ('terminate-force-failed', 'terminate-failed', 'close-raised', 'leak-after-del', 'leak-zombie', 'dead-but-running')


def check_pty(case, col=None):
    import pexpect.pty_spawn
    import ptyprocess.ptyprocess
    watch = KillWatch()
    saved = (pexpect.pty_spawn.os, ptyprocess.ptyprocess.os)
    pexpect.pty_spawn.os = watch
    ptyprocess.ptyprocess.os = watch
    try:
        try:
            _check_pty(case, col, watch)
        except Violation as v:
            if v.key not in TIMING_KEYS or case.get('_grace'):
                raise
            # pexpect gives a child delayafterterminate (0.1 s) after each signal before it looks again; on a starved
            # machine a SIGKILLed child can need longer to become reapable, and terminate()/close()/__del__ then give
            # up as documented.  Before calling that a failure the same history is repeated once with a 1.5 s grace.
            if col is not None:
                col.count('repeated_with_longer_delayafterterminate')
            watch2 = KillWatch()
            pexpect.pty_spawn.os = watch2
            ptyprocess.ptyprocess.os = watch2
            _check_pty(dict(case, _grace=1.5), None, watch2)
            if col is not None:
                col.case(case, False)
    finally:
        pexpect.pty_spawn.os, ptyprocess.ptyprocess.os = saved


def _check_pty(case, col, watch):
    disp = case['disposition']
    gc.collect()
    fds0 = nfds()
    child = spawn_child(disp, case['use_poll'])
    child.delaybeforesend = None
    if case.get('_grace'):
        child.delayafterterminate = case['_grace']
        child.ptyproc.delayafterterminate = case['_grace']
    pid = child.pid
    proc = Proc(pid)
    watch.proc = proc
    decoys = None
    dropped = False
    released = False          # the pexpect object has given up its descriptor (close returned or raised after closing)
    told_to_die = disp in ('exited', 'exits-soon')
    ever_dead = False
    feats = set()
    n_life = 0
    raised_any = False        # an exception raised by the object (its traceback may keep the object in a cycle)
    try:
        if disp in ('ignore', 'stopped+ignore', 'ignore+term', 'hup-deaf'):
            time.sleep(0.05)          # let sh install the trap and exec cat
        if disp.startswith('stopped'):
            os.kill(pid, signal.SIGSTOP)
            proc.wait_state(('T',), 3)
        if disp == 'exited':
            proc.wait_state(('Z', None), 5)
        old_fd = child.child_fd
        for i, op in enumerate(case['ops']):
            if dropped:
                break
            where = 'step %d (%s) of %r on a %s child' % (i, op, case['ops'][:i + 1], disp)
            stubborn = 'ignore' in disp          # resists the polite signals
            try:
                with guard(where, allow=(EOF, TIMEOUT, ExceptionPexpect, OSError, ValueError)):
                    if op == 'isalive':
                        n_life += 1
                        r = child.isalive()
                        if r and not proc.exists():
                            raise Violation('alive-but-gone', '%s: isalive() is True but the process no longer exists' % where)
                        if not r:
                            if proc.exists():
                                raise Violation('dead-but-running', '%s: isalive() is False but the process still exists (state %s)'
                                                % (where, proc.state()))
                            ever_dead = True
                    elif op == 'wait':
                        if not told_to_die:
                            continue
                        n_life += 1
                        child.wait()
                        if proc.exists():
                            raise Violation('dead-but-running', '%s: wait() returned but the process still exists' % where)
                        ever_dead = True
                    elif op.startswith('kill-'):
                        n_life += 1
                        sig = {'TERM': signal.SIGTERM, 'KILL': signal.SIGKILL, '0': 0, 'CONT': signal.SIGCONT}[op[5:]]
                        child.kill(sig)
                        if sig == signal.SIGKILL or (sig == signal.SIGTERM and not disp.startswith('stopped')
                                                     and disp != 'ignore+term'):
                            if proc.wait_state(('Z', None), 5):
                                told_to_die = True
                        if sig == signal.SIGCONT and disp.startswith('stopped'):
                            pass
                    elif op in ('terminate', 'terminate-force'):
                        n_life += 1
                        force = op.endswith('force')
                        r = child.terminate(force=force)
                        if r:
                            if proc.exists():
                                raise Violation('dead-but-running', '%s: terminate() returned True but the process still exists (state %s)'
                                                % (where, proc.state()))
                            ever_dead = True
                            told_to_die = True
                        elif force:
                            raise Violation('terminate-force-failed', '%s: terminate(force=True) returned %r; process state %s'
                                            % (where, r, proc.state()))
                        elif not stubborn:
                            raise Violation('terminate-failed', '%s: terminate(force=False) returned %r on a child that does not ignore '
                                            'SIGHUP/SIGINT (process state %s)' % (where, r, proc.state()))
                    elif op in ('close', 'close-noforce', 'with-exc'):
                        n_life += 1
                        force = op != 'close-noforce'
                        raised = None
                        try:
                            if op == 'with-exc':
                                try:
                                    with child:
                                        raise KeyError('leaving the with block')
                                except KeyError:
                                    pass
                            else:
                                child.close(force=force)
                        except ExceptionPexpect as e:
                            raised_any = True
                            raised = repr(e)        # not the exception: its traceback would keep the spawn object alive
                        if raised is not None:
                            if force or not stubborn:
                                raise Violation('close-raised', '%s: close(force=%r) raised %s on a child that does not resist'
                                                % (where, force, raised))
                            # documented: the child could not be terminated without force
                        else:
                            if proc.exists():
                                raise Violation('dead-but-running', '%s: close() returned but the process still exists (state %s)'
                                                % (where, proc.state()))
                            ever_dead = True
                            told_to_die = True
                            if not child.closed or child.child_fd != -1:
                                raise Violation('close-state', '%s: after close() closed=%r child_fd=%r' % (where, child.closed, child.child_fd))
                        # was the descriptor released?
                        try:
                            os.fstat(old_fd)
                            fd_open = True
                        except OSError:
                            fd_open = False
                        if not fd_open or raised is None:
                            released = True
                            feats.add('after-close')
                    elif op == 'sendeof':
                        child.sendeof()
                    elif op == 'expect-eof':
                        try:
                            child.expect(EOF, timeout=0.05)
                        except TIMEOUT:
                            raised_any = True
                    elif op == 'send':
                        child.send(b'x\n')
                    elif op == 'read':
                        try:
                            child.read_nonblocking(100, 0.05)
                        except (TIMEOUT, EOF):
                            raised_any = True
                    elif op == 'del':
                        n_life += 1
                        # dropping the last reference must be enough: nothing may keep the object alive until the
                        # cyclic collector happens to run (a long-running program would leak one descriptor and one
                        # process per dropped child until then)
                        gc_was = gc.isenabled()
                        if raised_any or released:
                            # an earlier exception's traceback legitimately references the object's frames: only the
                            # collector can free that; the immediate-reclaim demand is for exception-free histories
                            gc.collect()
                        gc.disable()
                        try:
                            del child
                            dropped = True
                            released = True
                            gone = proc.wait_state((None,), 3)
                        finally:
                            if gc_was:
                                gc.enable()
                        if not gone:
                            gc.collect()
                            if proc.wait_state((None,), 5):
                                raise Violation('leak-until-gc', '%s: after the object was dropped the child (and its descriptor) '
                                                'stayed until the cyclic garbage collector ran: the object is kept alive by a '
                                                'reference cycle' % where)
                            raise Violation('leak-after-del', '%s: the child process still exists (state %s) after the object was dropped'
                                            % (where, proc.state()))
                        break
                    elif op == 'grab-fds':
                        if released and decoys is None:
                            decoys = Decoys()
            except (ExceptionPexpect, OSError, ValueError) as e:
                raised_any = True
                # an error is the required outcome for I/O on a released descriptor, and acceptable elsewhere
            # passive invariants
            if watch.stray:
                raise Violation('signal-to-reaped-pid', '%s: signal %r was sent to pid %d after the child had been reaped'
                                % (where, watch.stray[0], pid))
            if not dropped:
                if child.terminated and proc.exists():
                    raise Violation('dead-but-running', '%s: terminated is True but the process still exists (state %s)'
                                    % (where, proc.state()))
                if ever_dead:
                    feats.add('after-death')
            # I/O on a released descriptor must raise and must not touch the decoys
            if released and not dropped:
                if decoys is None:
                    decoys = Decoys()
                io_after_release(child, decoys, where)
        # end of sequence: close for good, then leak accounting
        if not dropped:
            try:
                child.close(force=True)
            except ExceptionPexpect as e:
                raise Violation('close-raised', 'final close(force=True) raised %r (disposition %s, after %r)' % (e, disp, case['ops']))
            try:
                child.close()
            except Exception as e:
                raise Violation('close-not-idempotent', 'second close() raised %r' % (e,))
            if proc.exists():
                raise Violation('leak-zombie', 'after close(force=True) the process still exists (state %s)' % proc.state())
            del child
        if decoys is not None:
            decoys.close()
            decoys = None
        gc.collect()
        fds1 = nfds()
        if fds1 != fds0:
            raise Violation('fd-leak', 'open descriptors: %d before spawn, %d after close/drop (sequence %r, disposition %s)'
                            % (fds0, fds1, case['ops'], disp))
    finally:
        if decoys is not None:
            decoys.close()
        if proc.exists():
            try:
                os.kill(pid, signal.SIGKILL)
            except OSError:
                pass
            try:
                os.waitpid(pid, 0)
            except OSError:
                pass
    nt = n_life >= 3 and bool(feats)
    if col is not None:
        for f in feats:
            col.label(f)
        col.label('disposition=' + disp)
        col.case(case, nt)


# ---------------------------------------------------------------------------
# fdspawn / SocketSpawn

FD_OPS = ['isalive', 'close', 'close', 'send', 'read', 'close-elsewhere', 'with-exc', 'grab-fds', 'peer-eof']


@st.composite
def fd_cases(draw):
    return {'transport': draw(st.sampled_from(['fd', 'socket'])),
            'ops': draw(st.lists(st.sampled_from(FD_OPS), min_size=1, max_size=8)),
            # the descriptor number the object is given: whatever the kernel hands out, or 0 (what open() returns
            # in a process started without standard input: a daemon, a cron job)
            'fdnum': draw(st.sampled_from(['any', 'any', 'any', 'zero']))}


def check_fdsock(case, col=None):
    gc.collect()
    fds0 = nfds()
    a, b = socket.socketpair()
    b.settimeout(0.2)
    saved_stdin = None
    zero = case['transport'] == 'fd' and case.get('fdnum') == 'zero'
    if zero:
        try:
            saved_stdin = os.dup(0)
        except OSError:
            saved_stdin = -1          # no standard input in this process: 0 is free already
    if zero:
        os.dup2(a.fileno(), 0)
        fd = 0
        a.close()
        sp = fdpexpect.fdspawn(fd, timeout=1)
    elif case['transport'] == 'fd':
        fd = os.dup(a.fileno())
        a.close()
        sp = fdpexpect.fdspawn(fd, timeout=1)
    else:
        sp = socket_pexpect.SocketSpawn(a, timeout=1)
        fd = a.fileno()
    released = False
    closed_elsewhere = False
    peer_gone = [False]
    decoys = None
    feats = set()
    n_life = 0
    try:
        for i, op in enumerate(case['ops']):
            where = 'step %d (%s) of %r on %s' % (i, op, case['ops'][:i + 1], case['transport'])
            if peer_gone[0] and op in ('send', 'read'):
                continue            # (nobody is listening any more)
            try:
                with guard(where, allow=(EOF, TIMEOUT, ExceptionPexpect, OSError, ValueError)):
                    if op == 'isalive':
                        n_life += 1
                        r = sp.isalive()
                        if released and r:
                            raise Violation('alive-after-close', '%s: isalive() is True after the descriptor was released' % where)
                        if not released and not r:
                            raise Violation('dead-but-open', '%s: isalive() is False on an open descriptor' % where)
                    elif op in ('close', 'with-exc'):
                        n_life += 1
                        try:
                            if op == 'with-exc':
                                try:
                                    with sp:
                                        raise KeyError('x')
                                except KeyError:
                                    pass
                            else:
                                sp.close()
                        except OSError:
                            if not closed_elsewhere:
                                raise Violation('close-raised', '%s: close() raised OSError although the descriptor was open' % where)
                        else:
                            if not sp.closed or sp.child_fd != -1:
                                raise Violation('close-state', '%s: after close() closed=%r child_fd=%r' % (where, sp.closed, sp.child_fd))
                            if not closed_elsewhere and not released:
                                try:
                                    os.fstat(fd)
                                    raise Violation('fd-not-released', '%s: the descriptor %d is still open after close()' % (where, fd))
                                except OSError:
                                    pass
                        released = True
                        feats.add('after-close')
                    elif op == 'send':
                        sp.send(b'hello')
                        if not released:
                            if b.recv(100) != b'hello':
                                raise Violation('send-lost', '%s: the peer did not receive the bytes' % where)
                    elif op == 'read':
                        if not released:
                            b.send(b'yo')
                            if sp.read_nonblocking(10, 1) != b'yo':
                                raise Violation('read-wrong', '%s' % where)
                    elif op == 'peer-eof':
                        # the peer hangs up and the object reads to EOF (it is still open and still has to be closed)
                        if not released and not closed_elsewhere and not peer_gone[0]:
                            b.close()
                            peer_gone[0] = True
                            try:
                                sp.expect(EOF, timeout=1)
                            except TIMEOUT:
                                raise Violation('read-wrong', '%s: TIMEOUT although the peer closed' % where)
                    elif op == 'close-elsewhere':
                        if not released and not closed_elsewhere:
                            if case['transport'] == 'fd':
                                os.close(fd)
                            else:
                                a.close()
                            closed_elsewhere = True
                            released = True
                    elif op == 'grab-fds':
                        # only once the object itself has given the number up: a descriptor closed behind its
                        # back is the caller's doing, and close() on it is documented to raise OSError
                        if released and sp.child_fd == -1 and decoys is None:
                            decoys = Decoys()
            except (ExceptionPexpect, OSError, ValueError):
                pass
            if released and sp.child_fd == -1:
                if decoys is None:
                    decoys = Decoys()
                for name, fn in (('send', lambda: sp.send(b'STRAY-WRITE')),
                                 ('sendline', lambda: sp.sendline(b'STRAY')),
                                 ('read_nonblocking', lambda: sp.read_nonblocking(100, 0.01)),
                                 ('expect', lambda: sp.expect(b'never', timeout=0.01))):
                    try:
                        with guard('%s after close' % name, allow=(ExceptionPexpect, OSError, ValueError)):
                            fn()
                        err = None
                    except (ExceptionPexpect, OSError, ValueError) as e:
                        err = e
                    decoys.check('%s: %s() after close' % (where, name))
                    if err is None or isinstance(err, TIMEOUT):
                        raise Violation('io-after-release', '%s: %s() after close() %s instead of failing with an error'
                                        % (where, name, 'returned normally' if err is None else 'polled and timed out'))
        try:
            sp.close()
            sp.close()
        except OSError:
            if not closed_elsewhere:
                raise Violation('close-not-idempotent', 'final close() raised OSError')
    finally:
        if decoys is not None:
            decoys.close()
        for s in (a, b):
            try:
                s.close()
            except OSError:
                pass
        if case['transport'] == 'fd':
            try:
                os.close(fd)
            except OSError:
                pass
        if saved_stdin is not None and saved_stdin >= 0:
            os.dup2(saved_stdin, 0)
            os.close(saved_stdin)
    del sp
    gc.collect()
    fds1 = nfds()
    if fds1 != fds0:
        raise Violation('fd-leak', '%s: open descriptors %d before, %d after' % (case['transport'], fds0, fds1))
    if col is not None:
        col.label('transport=' + case['transport'])
        if zero:
            col.label('descriptor-number-0')
        col.case(case, n_life >= 2 and bool(feats) and len(case['ops']) >= 3)


def run_shard(spec, seed, idx, deadline_ts):
    col = Collector()
    if spec['kind'] == 'pty':
        def body(case, c):
            with case_watchdog(180, 'C10 sequence'):
                check_pty(case, c)
        run_batches(body, pty_cases(), spec['n'], seed * 1000 + idx, col, batch=25, shrink=False, deadline_ts=deadline_ts)
    else:
        def body(case, c):
            with case_watchdog(60, 'C10 fd/socket sequence'):
                check_fdsock(case, c)
        run_batches(body, fd_cases(), spec['n'], seed * 1000 + idx, col, deadline_ts=deadline_ts)
    return col


def replay(case, spec=None):
    if 'disposition' in case:
        check_pty(case)
    else:
        check_fdsock(case)


def _probe_failed_close():
    check_pty({'disposition': 'ignore', 'ops': ['close-noforce', 'grab-fds', 'send'], 'use_poll': False})


PROBES = [('probe:failed-close-stale-fd', 'close(force=False) on a child that ignores HUP/INT raises but has already released '
           'the descriptor; later I/O goes to whatever took the number', _probe_failed_close)]
