"""E4: reference grid for pexpect.screen, written from the docstrings.

Row/column numbers are 1-based; every coordinate outside the screen is the
nearest edge.  Where the documentation is silent the model does not guess: it
checks a validity predicate against the implementation and adopts the
implementation's choice (`adopt_*` below), so only documented behaviour is
demanded.
"""
from ..common import Violation

SPACE = ' '


def clamp(n, lo, hi):
    return lo if n < lo else hi if n > hi else n


class Grid(object):

    def __init__(self, rows, cols):
        self.rows, self.cols = rows, cols
        self.g = [[SPACE] * cols for _ in range(rows)]
        self.cr = self.cc = 1
        self.sr = self.sc = 1
        self.ss, self.se = 1, rows

    # ---- helpers
    def rc(self, r, c):
        return clamp(r, 1, self.rows), clamp(c, 1, self.cols)

    def rect(self, rs, cs, re, ce):
        rs, cs = self.rc(rs, cs)
        re, ce = self.rc(re, ce)
        if rs > re:
            rs, re = re, rs
        if cs > ce:
            cs, ce = ce, cs
        return rs, cs, re, ce

    def text_rows(self):
        return [''.join(r) for r in self.g]

    # ---- documented operations (return value = expected return of the call)
    def put_abs(self, r, c, ch):
        r, c = self.rc(r, c)
        self.g[r - 1][c - 1] = ch

    def put(self, ch):
        self.put_abs(self.cr, self.cc, ch)

    def insert_abs(self, r, c, ch):
        r, c = self.rc(r, c)
        row = self.g[r - 1]
        self.g[r - 1] = row[:c - 1] + [ch] + row[c - 1:-1]

    def insert(self, ch):
        self.insert_abs(self.cr, self.cc, ch)

    def fill(self, ch=SPACE):
        self.fill_region(1, 1, self.rows, self.cols, ch)

    def fill_region(self, rs, cs, re, ce, ch=SPACE):
        rs, cs, re, ce = self.rect(rs, cs, re, ce)
        for r in range(rs, re + 1):
            for c in range(cs, ce + 1):
                self.g[r - 1][c - 1] = ch

    def get_abs(self, r, c):
        r, c = self.rc(r, c)
        return self.g[r - 1][c - 1]

    def get(self):
        return self.g[self.cr - 1][self.cc - 1]

    def get_region(self, rs, cs, re, ce):
        rs, cs, re, ce = self.rect(rs, cs, re, ce)
        return [''.join(self.g[r - 1][cs - 1:ce]) for r in range(rs, re + 1)]

    def dump(self):
        return ''.join(self.text_rows())

    def str(self):
        return '\n'.join(self.text_rows())

    def pretty(self):
        tb = '+' + '-' * self.cols + '+\n'
        # "similar to __str__ except that it adds a box": the box goes around the lines of str(), which are the rows
        # unless a cell holds a line feed itself
        return tb + '\n'.join('|' + l + '|' for l in self.str().split('\n')) + '\n' + tb

    def cursor_home(self, r=1, c=1):
        self.cr, self.cc = self.rc(r, c)

    cursor_force_position = cursor_home

    def cursor_back(self, n=1):
        self.cc = clamp(self.cc - n, 1, self.cols)

    def cursor_forward(self, n=1):
        self.cc = clamp(self.cc + n, 1, self.cols)

    def cursor_up(self, n=1):
        self.cr = clamp(self.cr - n, 1, self.rows)

    def cursor_down(self, n=1):
        self.cr = clamp(self.cr + n, 1, self.rows)

    def cursor_save(self):
        self.sr, self.sc = self.cr, self.cc

    cursor_save_attrs = cursor_save

    def cursor_unsave(self):
        self.cr, self.cc = self.rc(self.sr, self.sc)

    cursor_restore_attrs = cursor_unsave

    def cr_(self):
        self.cc = 1

    def scroll_screen(self):
        self.ss, self.se = 1, self.rows

    def scroll_screen_rows(self, rs, re):
        self.ss = clamp(rs, 1, self.rows)
        self.se = clamp(re, 1, self.rows)

    def erase_end_of_line(self):
        self.fill_region(self.cr, self.cc, self.cr, self.cols)

    def erase_start_of_line(self):
        self.fill_region(self.cr, 1, self.cr, self.cc)

    def erase_line(self):
        self.fill_region(self.cr, 1, self.cr, self.cols)

    def erase_down(self):
        # <ESC>[0J: from the cursor to the end of its line, and every line below
        self.erase_end_of_line()
        if self.cr < self.rows:
            self.fill_region(self.cr + 1, 1, self.rows, self.cols)

    def erase_up(self):
        # <ESC>[1J: from the start of the cursor line to the cursor, and every line above
        self.erase_start_of_line()
        if self.cr > 1:
            self.fill_region(1, 1, self.cr - 1, self.cols)

    def erase_screen(self):
        self.fill()

    # ---- operations whose vacated row is not documented
    def scroll_up(self, impl_rows):
        """rows ss..se move up by one; the vacated row `se` may be unchanged or
        blank (adopted from the implementation)."""
        s, e = self.ss, self.se
        if s >= e:
            return
        old_e = self.g[e - 1]
        for r in range(s, e):
            self.g[r - 1] = self.g[r]
        self._adopt_row(e, impl_rows, (old_e, [SPACE] * self.cols), 'scroll_up')

    def scroll_down(self, impl_rows):
        s, e = self.ss, self.se
        if s >= e:
            return
        old_s = self.g[s - 1]
        for r in range(e, s, -1):
            self.g[r - 1] = self.g[r - 2]
        self._adopt_row(s, impl_rows, (old_s, [SPACE] * self.cols), 'scroll_down')

    def _adopt_row(self, r, impl_rows, allowed, what):
        if len(impl_rows) != self.rows:
            raise Violation('shape', '%s changed the number of rows to %d' % (what, len(impl_rows)))
        got = list(impl_rows[r - 1])
        if got not in [list(a) for a in allowed]:
            raise Violation('frame', '%s: vacated row %d is %r; it may only stay %r or become blank'
                            % (what, r, ''.join(map(str, got)), ''.join(allowed[0])))
        self.g[r - 1] = got

    def lf(self, impl_rows):
        if self.cr < self.rows:
            self.cr += 1
            return
        # at the bottom line: the region scrolls up and the cursor line is blanked
        self.scroll_up(impl_rows)
        self.erase_line()

    def crlf(self, impl_rows):
        self.cc = 1
        self.lf(impl_rows)

    newline = crlf

    def cursor_up_reverse(self, impl_rows):
        if self.cr > 1:
            self.cr -= 1
            return
        # at the top line the documentation does not say which way the region
        # moves: only rows inside the scroll region may change
        if len(impl_rows) != self.rows:
            raise Violation('shape', 'cursor_up_reverse changed the number of rows to %d' % len(impl_rows))
        for r in range(1, self.rows + 1):
            if self.ss <= r <= self.se:
                self.g[r - 1] = list(impl_rows[r - 1])
