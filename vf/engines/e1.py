"""E1 case format, generators and executor shared by C01-C04 (and C20).

A case (JSON-able dict):
  enc      None (bytes mode) | codec name
  stream   bytes: everything the child writes
  cuts     sorted offsets where the stream is split into reads
  marks    {chunk_index: 't'|'tf'}: TIMEOUT markers (see scripted.build_script)
  tail     'eof' | 'timeout' (what the transport does after the script)
  maxread  int
  sws      instance-level searchwindowsize (None | int)
  calls    list of operations, see `call` strategy below

`execute(case)` runs the history on the real Expecter (over ScriptedSpawn)
and on the reference model side by side and yields a Step per call, carrying
both observations; property modules put their oracles on top.
"""
import re

from hypothesis import strategies as st

import pexpect
from pexpect.exceptions import EOF, TIMEOUT

from ..common import Violation, guard
from . import scripted, refmodel

MB = ['é', '€', '\U0001d11e']        # 2-, 3-, 4-byte characters in utf-8


# ---------------------------------------------------------------------------
# generators

def symbols(text_mode):
    base = ['a', 'a', 'b', 'b', 'c', 'x', '\r\n', '\n', '\r']
    return base + (MB if text_mode else [])


@st.composite
def streams(draw, text_mode, max_syms=14):
    syms = draw(st.lists(st.sampled_from(symbols(text_mode)), min_size=0, max_size=max_syms))
    return ''.join(syms)


def _atoms(text_mode):
    a = ['a', 'b', 'c', 'x', '.', '[ab]', '[^a]', r'\r\n', r'\n', r'\w']
    if text_mode:
        a += MB[:2]
    return a


@st.composite
def regex_text(draw, text_mode):
    """Small regex grammar: literals, classes, + * ? {n}, alternation, groups,
    end anchors, zero-width assertions."""
    kind = draw(st.integers(0, 19))
    atom = st.sampled_from(_atoms(text_mode))
    quant = st.sampled_from(['', '', '', '+', '*', '?', '{2}', '+?', '*?'])

    def seq(n_max=3):
        n = draw(st.integers(1, n_max))
        return ''.join(draw(atom) + draw(quant) for _ in range(n))

    if kind <= 7:
        return seq()
    if kind == 8:
        return seq(2) + '|' + seq(2)
    if kind == 9:
        return '(' + seq(2) + ')' + seq(1)
    if kind == 10:
        return '(' + seq(1) + ')|(' + seq(1) + ')'
    if kind == 11:
        return seq(2) + '$'
    if kind == 12:
        return '^' + seq(2)
    if kind == 13:
        return draw(st.sampled_from(['$', '^', r'\b', r'\B', '', '(?<=a)', '(?=b)', '(?<=a)b', 'a(?=b)',
                                     '(?<!a)b', 'x*', 'a*', '(a*)(b*)', r'\Z', r'\A']))
    if kind == 14:
        return draw(atom) + '{' + str(draw(st.integers(1, 3))) + '}'
    if kind == 15:
        return '(?:' + seq(2) + ')+'
    if kind == 16:
        return seq(1) + '(' + seq(1) + ')?'
    if kind == 17:
        return '(' + seq(1) + r')\1'
    if kind == 18:
        return seq(1) + '.*' + seq(1)
    return seq(1) + '.*?' + seq(1)


@st.composite
def exact_text(draw, text_mode):
    n = draw(st.integers(0, 3))
    if n == 0 and draw(st.integers(0, 3)) != 0:
        n = 1
    return ''.join(draw(st.sampled_from(symbols(text_mode))) for _ in range(n))


def _valid(p):
    try:
        re.compile(p)
        re.compile(p.encode('utf-8'))
        return p
    except re.error:
        return 'a'


def windows():
    return st.sampled_from([-1, -1, None, None, 1, 2, 3, 4, 5, 20])


def timeouts():
    return st.sampled_from([-1, -1, -1, 5, 0.5, 0])


@st.composite
def pattern_list(draw, text_mode, exact, min_text=0, max_len=4, stream=None):
    n = draw(st.integers(1, max_len))
    base = exact_text(text_mode) if exact else regex_text(text_mode)
    if stream:
        # construction over rejection: a good share of the patterns are pieces of the stream itself (1-5
        # characters, so that occurrences exist, overlap each other and straddle read boundaries)
        @st.composite
        def from_stream(d):
            i = d(st.integers(0, len(stream) - 1))
            j = min(len(stream), i + d(st.integers(1, 5)))
            piece = stream[i:j]
            return piece if exact else re.escape(piece)
        if exact:
            pt = st.one_of(base, from_stream(), from_stream())
        else:
            # ... and pieces of the stream under a start/end anchor or a look-behind: whether these match
            # depends on where the searched window begins, not only on the text
            @st.composite
            def anchored(d):
                piece = d(from_stream())
                k = d(st.integers(0, 5))
                if k == 0:
                    return '^' + piece
                if k == 1:
                    return r'\A' + piece
                if k == 2:
                    return piece + '$'
                if k == 3:
                    return '(?<!' + re.escape(d(st.sampled_from(stream))) + ')' + piece
                if k == 4:
                    return '(?<=' + re.escape(d(st.sampled_from(stream))) + ')' + piece
                return '^.' + piece
            pt = st.one_of(base, from_stream(), from_stream(), anchored())
    else:
        pt = base
    out = []
    for _ in range(n):
        k = draw(st.integers(0, 9))
        if k == 0:
            out.append('EOF')
        elif k == 1:
            out.append('TIMEOUT')
        elif k == 2 and out and not isinstance(out[-1], str):
            out.append(dict(out[-1]))                   # duplicate
        else:
            out.append({'ex': draw(pt)} if exact else {'re': _valid(draw(pt))})
    while sum(1 for p in out if isinstance(p, dict)) < min_text:
        out.append({'ex': draw(pt)} if exact else {'re': _valid(draw(pt))})
    # markers at most once each (a list with two EOFs is legal but the
    # "index of EOF" would be ambiguous)
    seen = set()
    res = []
    for p in out:
        if isinstance(p, str):
            if p in seen:
                continue
            seen.add(p)
        res.append(p)
    return res


@st.composite
def call(draw, text_mode, ops, stream=None, cut_chars=None, inst_w=None):
    op = draw(st.sampled_from(ops))
    c = {'op': op}
    if op in ('expect', 'expect_list', 'expect_c'):
        c['pats'] = draw(pattern_list(text_mode, False, stream=stream))
        c['w'] = draw(windows())
        W = inst_w if c['w'] == -1 else c['w']
        if stream and cut_chars and isinstance(W, int) and draw(st.integers(0, 3)) == 0:
            # a piece of the stream anchored to the start of the searched text, placed where a window of W
            # characters (or one more, or one fewer) begins after some read: decides "the last W characters"
            at = draw(st.sampled_from(cut_chars)) - W + draw(st.sampled_from([0, 0, 1, -1]))
            at = max(0, min(len(stream) - 1, at))
            piece = re.escape(stream[at:at + draw(st.integers(1, max(1, W - 1)))])
            c['pats'] = c['pats'][:3] + [{'re': draw(st.sampled_from(['^', r'\A', '^'])) + piece}]
        c['timeout'] = draw(timeouts())
        if draw(st.integers(0, 24)) == 0:
            c['pats'] = []          # nothing to look for (run() does this): the call can only end in EOF or TIMEOUT
        c['single'] = (len(c['pats']) == 1 and draw(st.booleans()))
    elif op == 'expect_exact':
        c['pats'] = draw(pattern_list(text_mode, True, stream=stream))
        c['w'] = draw(windows())
        c['timeout'] = draw(timeouts())
        if draw(st.integers(0, 24)) == 0:
            c['pats'] = []
        c['single'] = (len(c['pats']) == 1 and draw(st.booleans()))
    elif op == 'read':
        c['n'] = draw(st.sampled_from([-1, 0, 1, 2, 3, 5, 50]))
    elif op == 'iter':
        c['n'] = draw(st.integers(1, 3))
    elif op == 'setbuf':
        c['v'] = draw(streams(text_mode, 5))
    elif op == 'set_sws':
        c['v'] = draw(st.sampled_from([None, 1, 2, 3, 5, 20]))
    elif op == 'set_maxread':
        c['v'] = draw(st.sampled_from([1, 2, 3, 7, 2000]))
    return c


ALL_OPS = ['expect', 'expect', 'expect', 'expect_exact', 'expect_exact', 'expect_list', 'expect_c',
           'read', 'readline', 'readlines', 'iter', 'setbuf', 'set_sws', 'set_maxread']
EXPECT_OPS = ['expect', 'expect', 'expect_exact', 'expect_exact', 'expect_list', 'expect_c']


@st.composite
def cases(draw, ops=None, max_calls=6, modes=(False, True), max_syms=14, allow_marks=True,
          call_strategy=None):
    text_mode = draw(st.sampled_from(modes))
    s = draw(streams(text_mode, max_syms))
    enc = 'utf-8' if text_mode else None
    data = s.encode('utf-8')
    n = len(data)
    ncuts = draw(st.integers(0, min(8, n + 2)))
    cuts = sorted(draw(st.lists(st.integers(0, n), min_size=ncuts, max_size=ncuts)))
    marks = {}
    if allow_marks:
        for i in range(len(cuts) + 1):
            k = draw(st.integers(0, 9))
            if k == 0:
                marks[str(i)] = 't'
            elif k == 1:
                marks[str(i)] = 'tf'
    if cuts and draw(st.integers(0, 2)) == 0:
        cuts = sorted(cuts + [draw(st.sampled_from(cuts))])        # an empty read
    cut_chars = sorted(set(len(data[:c].decode('utf-8', 'ignore')) for c in cuts)) if s else None
    inst_w = draw(st.sampled_from([None, None, None, 2, 4]))
    calls = draw(st.lists(call_strategy(text_mode, s) if call_strategy
                          else call(text_mode, ops or ALL_OPS, stream=s, cut_chars=cut_chars, inst_w=inst_w),
                          min_size=1, max_size=max_calls))
    return {
        'enc': enc,
        'stream': data,
        'cuts': cuts,
        'marks': marks,
        'tail': draw(st.sampled_from(['eof', 'eof', 'timeout'])),
        'maxread': draw(st.sampled_from([2000, 2000, 1, 2, 3, 7])),
        'sws': inst_w,
        'ic': draw(st.integers(0, 3)) == 0,
        'shared_list': draw(st.integers(0, 3)) == 0,
        'calls': calls,
    }


# ---------------------------------------------------------------------------
# executor

class Step(object):
    """One API call: what the real object did and what the model says."""
    __slots__ = ('i', 'call', 'ret', 'exc', 'exc_obj', 'before', 'after', 'buffer', 'match',
                 'match_index', 'reads', 'delivered', 'trace', 'model', 'expected_ret',
                 'pending_before', 'W', 'entries', 'native', 'rejected')

    def __init__(self):
        for k in self.__slots__:
            setattr(self, k, None)


def conv(text, text_mode):
    """generator text -> the object's native string type"""
    return text if text_mode else text.encode('utf-8')


def model_entries(pats, text_mode, exact, flags=re.DOTALL):
    out = []
    for p in pats:
        if isinstance(p, str):
            out.append(p)
        elif exact:
            out.append(('ex', conv(p['ex'], text_mode)))
        else:
            out.append(('re', re.compile(conv(p['re'], text_mode), p.get('flags', flags))))
    return out


def native_patterns(pats, text_mode, exact, compiled=False):
    out = []
    for p in pats:
        if p == 'EOF':
            out.append(EOF)
        elif p == 'TIMEOUT':
            out.append(TIMEOUT)
        elif exact:
            out.append(conv(p['ex'], text_mode))
        elif compiled:
            out.append(re.compile(conv(p['re'], text_mode), re.DOTALL))
        else:
            out.append(conv(p['re'], text_mode))
    return out


class Tracing(scripted.ScriptedSpawn):
    """Records (before, after) of every internal expect-family call, so that
    read/readline/readlines/iteration - which are built on expect - can be
    accounted for call by call."""

    def __init__(self, *a, **kw):
        scripted.ScriptedSpawn.__init__(self, *a, **kw)
        self.trace = []
        self._polled = False
        self._inner = 0

    def begin_call(self):
        self._polled = False
        self._inner = 0

    def read_nonblocking(self, size=1, timeout=-1):
        if timeout == 0:
            # poll mode: one chunk is "immediately readable", then nothing
            if self._polled:
                self.reads += 1
                self.read_args.append((size, timeout))
                self.raised.append('TIMEOUT')
                raise TIMEOUT('Timeout exceeded. scripted poll.')
            self._polled = True
        return scripted.ScriptedSpawn.read_nonblocking(self, size, timeout)

    def _rec(self, fn, *a, **kw):
        self._inner += 1
        if self._inner > 400:
            raise Violation('runaway', 'more than 400 internal expect calls inside one API call '
                                       '(a reader that never consumes its match)')
        try:
            r = fn(self, *a, **kw)
        except EOF:
            self.trace.append(('eof', self.before, None))
            raise
        except TIMEOUT:
            self.trace.append(('timeout', self.before, None))
            raise
        if self.after is EOF:
            self.trace.append(('eof', self.before, None))
        elif self.after is TIMEOUT:
            self.trace.append(('timeout', self.before, None))
        else:
            self.trace.append(('match', self.before, self.after))
        self._polled = False
        return r

    def expect_list(self, *a, **kw):
        return self._rec(scripted.ScriptedSpawn.expect_list, *a, **kw)

    def expect_exact(self, *a, **kw):
        return self._rec(scripted.ScriptedSpawn.expect_exact, *a, **kw)


def make_pair(case, spawn_cls=Tracing):
    script = scripted.build_script(case['stream'], case['cuts'], case['marks'])
    clock = scripted.VirtualClock()
    kw = dict(maxread=case['maxread'], searchwindowsize=case['sws'], timeout=30)
    if case['enc']:
        kw['encoding'] = case['enc']
        kw['codec_errors'] = case.get('errors', 'strict')
    sp = spawn_cls(list(script), tail=case['tail'], clock=clock, **kw)
    if case.get('ic'):
        # streams and patterns are all lower case: ignoring case changes no answer (what `.` matches must not change
        # either); compiled patterns are never affected by the attribute
        sp.ignorecase = True
    mo = refmodel.Model(list(script), case['tail'], encoding=case['enc'],
                        errors=case.get('errors', 'strict'), maxread=case['maxread'])
    return sp, mo, clock


def eff_window(call_w, inst_w):
    return inst_w if call_w == -1 else call_w


def _model_expect(mo, entries, W, zero):
    """Model of one expect-family call.  `zero`: timeout 0 - one poll only."""
    if not zero:
        return mo.expect(entries, W)
    # poll mode: at most one chunk, then the deadline has passed
    saved = mo._next
    state = {'n': 0}

    def once():
        if state['n'] >= 1:
            mo.reads += 1
            return ('t',)
        state['n'] += 1
        return saved()
    mo._next = once
    try:
        return mo.expect(entries, W)
    finally:
        del mo._next


def execute(case):
    """Generator of Steps.  Raises Violation only for unexpected exception
    classes escaping pexpect (C04 territory, but fatal for every oracle)."""
    text_mode = case['enc'] is not None
    sp, mo, clock = make_pair(case)
    cur_sws = case['sws']          # the instance attribute may be changed in mid-history
    shared_list = []
    with scripted.virtual_time(clock):
        for i, c in enumerate(case['calls']):
            st_ = Step()
            st_.i, st_.call = i, c
            st_.pending_before = mo.P
            op = c['op']
            reads0, nd0, nt0 = sp.reads, len(sp.delivered), len(sp.trace)
            sp.begin_call()
            ret = exc = exc_obj = None
            mret = None
            m = None
            try:
                with guard('call %d %s' % (i, op), allow=(EOF, TIMEOUT)):
                    if op in ('expect', 'expect_list', 'expect_c', 'expect_exact'):
                        exact = op == 'expect_exact'
                        W = eff_window(c['w'], cur_sws)
                        st_.W = W
                        entries = model_entries(c['pats'], text_mode, exact)
                        st_.entries = entries
                        nat = native_patterns(c['pats'], text_mode, exact, compiled=(op == 'expect_c'))
                        st_.native = nat
                        arg = nat[0] if c.get('single') else nat
                        m = _model_expect(mo, entries, W, c['timeout'] == 0)
                        if op == 'expect_list':
                            cpl = sp.compile_pattern_list(arg)
                            if case.get('shared_list'):
                                # one list object for the whole history, edited in place between the calls (a caller
                                # keeping its precompiled list and inserting / replacing entries)
                                shared_list[:] = cpl
                                cpl = shared_list
                            st_.native = cpl
                            ret = sp.expect_list(cpl, timeout=c['timeout'], searchwindowsize=c['w'])
                        elif exact:
                            ret = sp.expect_exact(arg, timeout=c['timeout'], searchwindowsize=c['w'])
                        else:
                            ret = sp.expect(arg, timeout=c['timeout'], searchwindowsize=c['w'])
                        mret = m.index
                    elif op == 'read':
                        n = c['n']
                        st_.W = cur_sws
                        if n == 0:
                            mret = mo.empty()
                        elif n < 0:
                            m = mo.expect(['EOF'], cur_sws)
                            mret = m.before if m.kind == 'eof' else None
                        else:
                            ent = [('re', re.compile(conv('.{%d}' % n, text_mode), re.DOTALL)), 'EOF']
                            m = mo.expect(ent, cur_sws)
                            mret = m.after if m.kind == 'match' else (m.before if m.kind == 'eof' else None)
                        ret = sp.read(n)
                    elif op == 'readline':
                        st_.W = cur_sws
                        crlf = conv('\r\n', text_mode)
                        m = mo.expect([('re', re.compile(crlf, re.DOTALL)), 'EOF'], cur_sws)
                        mret = (m.before + crlf) if m.kind == 'match' else (m.before if m.kind == 'eof' else None)
                        ret = sp.readline()
                    elif op in ('readlines', 'iter'):
                        st_.W = cur_sws
                        crlf = conv('\r\n', text_mode)
                        limit = c.get('n') if op == 'iter' else None
                        lines = []
                        while limit is None or len(lines) < limit:
                            m = mo.expect([('re', re.compile(crlf, re.DOTALL)), 'EOF'], cur_sws)
                            if m.kind == 'timeout':
                                lines = None
                                break
                            line = (m.before + crlf) if m.kind == 'match' else m.before
                            if not line:
                                break
                            lines.append(line)
                        mret = lines
                        if op == 'readlines':
                            ret = sp.readlines()
                        else:
                            it = iter(sp)
                            ret = []
                            for _ in range(limit):
                                try:
                                    ret.append(next(it))
                                except StopIteration:
                                    break
                    elif op == 'setbuf':
                        v = conv(c['v'], text_mode)
                        mo.set_buffer(v)
                        sp.buffer = v
                    elif op == 'set_sws':
                        cur_sws = c['v']
                        sp.searchwindowsize = c['v']
                    elif op == 'set_maxread':
                        sp.maxread = c['v']
                        mo.maxread = c['v']
                    else:
                        raise ValueError(op)
            except EOF as e:
                exc, exc_obj = 'EOF', e
            except TIMEOUT as e:
                exc, exc_obj = 'TIMEOUT', e
            st_.ret, st_.exc, st_.exc_obj = ret, exc, exc_obj
            st_.before, st_.after, st_.buffer = sp.before, sp.after, sp.buffer
            st_.match, st_.match_index = sp.match, sp.match_index
            st_.reads = sp.reads - reads0
            st_.delivered = sp.delivered[nd0:]
            st_.trace = sp.trace[nt0:]
            st_.model = m
            st_.expected_ret = mret
            yield st_, sp, mo


def describe(case):
    """Compact human-readable rendering used in evidence samples."""
    return case
