"""E1: scripted transport.

ScriptedSpawn is a SpawnBase subclass whose read_nonblocking plays a generated
script, so that the read boundaries - which the kernel decides for the real
transports - are a generated value.  Every chunk goes through the instance's
real incremental decoder and the real _log, exactly as the real transports do.

Script items
    ('d', bytes)      a read returning these bytes (cut to `size`; the rest
                      stays queued, as with a real descriptor)
    ('df', bytes)     same, and the call's deadline passes right after the
                      read (the virtual clock jumps past it): exercises the
                      `timeout < 0` branch of expect_loop
    ('s', text)       a read returning this already-decoded text as is
    ('t',)            nothing arrives within the current call's deadline:
                      read_nonblocking raises TIMEOUT (item consumed)
    ('e',)            end of stream: EOF, sticky
After the script is exhausted the `tail` ('eof' | 'timeout') repeats forever.
"""
import contextlib

import pexpect
import pexpect.expect
from pexpect.spawnbase import SpawnBase
from pexpect.exceptions import EOF, TIMEOUT


class VirtualClock(object):
    """Stands in for the `time` module inside pexpect.expect."""

    def __init__(self):
        self.now = 1000.0
        self.sleeps = 0

    def time(self):
        return self.now

    def sleep(self, s):
        self.sleeps += 1
        if s and s > 0:
            self.now += s

    def monotonic(self):
        return self.now


@contextlib.contextmanager
def virtual_time(clock):
    saved = pexpect.expect.time
    pexpect.expect.time = clock
    try:
        yield clock
    finally:
        pexpect.expect.time = saved


class ScriptedSpawn(SpawnBase):

    def __init__(self, script, tail='eof', clock=None, **kw):
        SpawnBase.__init__(self, **kw)
        self.script = [tuple(i) for i in script]
        self.tail = tail
        self.clock = clock
        self.closed = False
        self.child_fd = -1
        self.delayafterread = None
        self.reads = 0              # read_nonblocking calls so far
        self.delivered = []         # decoded text handed over, per read
        self.read_args = []         # (size, timeout) of every read
        self.raised = []            # 'EOF'/'TIMEOUT' raised by the transport
        self.command = 'scripted'
        self.args = ['scripted']
        self.name = '<scripted>'
        self._sticky_eof = False

    # the diagnostic message of EOF/TIMEOUT is built from str(spawn); use the
    # real pty implementation of __str__ where possible
    def __str__(self):
        from pexpect.pty_spawn import spawn as _spawn
        return _spawn.__str__(self)

    str_last_chars = 100

    def isalive(self):
        return not self._sticky_eof

    def close(self):
        self.closed = True

    def read_nonblocking(self, size=1, timeout=-1):
        self.reads += 1
        self.read_args.append((size, timeout))
        if self._sticky_eof:
            self.flag_eof = True
            self.raised.append('EOF')
            raise EOF('End Of File (EOF). scripted.')
        if self.script:
            item = self.script.pop(0)
        else:
            item = ('e',) if self.tail == 'eof' else ('t',)
        kind = item[0]
        if kind == 'e':
            self._sticky_eof = True
            self.flag_eof = True
            self.raised.append('EOF')
            raise EOF('End Of File (EOF). scripted.')
        if kind == 't':
            if self.clock is not None and timeout is not None and timeout > 0:
                self.clock.now += timeout
            self.raised.append('TIMEOUT')
            raise TIMEOUT('Timeout exceeded. scripted.')
        if kind == 's':
            # a chunk that is already decoded text (replay of what another transport delivered)
            s = item[1]
            if self.clock is not None:
                self.clock.now += 1e-6
            self._log(s, 'read')
            self.delivered.append(s)
            return s
        data = item[1]
        if size is not None and size >= 0 and len(data) > size:
            rest = data[size:]
            data = data[:size]
            self.script.insert(0, (kind, rest))
            kind = 'd'              # the deadline passes after the *last* piece
        if self.clock is not None:
            self.clock.now += 1e-6
            if kind == 'df' and timeout is not None:
                self.clock.now += max(timeout, 0) + 1e-3
        s = self._decoder.decode(data, final=False)
        self._log(s, 'read')
        self.delivered.append(s)
        return s


def build_script(stream, cuts, marks):
    """Split `stream` at the sorted offsets `cuts` (repeats give empty reads)
    and insert TIMEOUT markers.  marks: {chunk_index: 't' | 'tf'} - after
    chunk i nothing more arrives before the deadline ('tf': the deadline
    passes during the read of chunk i itself)."""
    pts = [0] + sorted(min(max(int(c), 0), len(stream)) for c in cuts) + [len(stream)]
    chunks = [stream[pts[i]:pts[i + 1]] for i in range(len(pts) - 1)]
    marks = {int(k): v for k, v in (marks or {}).items()}
    script = []
    for i, ch in enumerate(chunks):
        m = marks.get(i)
        if m == 'tf':
            script.append(('df', ch))
        else:
            script.append(('d', ch))
            if m == 't':
                script.append(('t',))
    return script
