"""E2: real kernel objects, interposed system calls, virtual clock.

A Sim owns a real os.openpty() pair (slave raw: the harness *is* the child),
an os.pipe() or a socketpair(), plus a fake pid whose waitpid() is answered
from the script.  The reader is the real pexpect.spawn / fdspawn / SocketSpawn.
For the duration of a case the module attributes

    pexpect.utils.select / .time      pexpect.expect.time
    pexpect.pty_spawn.time / .os      pexpect.spawnbase.os
    pexpect.fdpexpect.os              ptyprocess.ptyprocess.os / .time

are replaced by proxies.  Reads, readiness, EIO on hang-up are the genuine
kernel behaviour; only *when* things happen is ours: every interposed call
costs 1 us of virtual time, peer actions fire before the first reader syscall
whose start time >= their timestamp, and a blocking wait with nothing ready
jumps the clock to min(expiry, next peer action).  A wait that nothing can
ever end raises Blocked (a BaseException) through the code under test.

Peer actions (t = virtual seconds after the start of the case):
  {'t', 'op': 'write', 'data': bytes}   {'t', 'op': 'close'}
  {'t', 'op': 'exit', 'status': int}    (raw waitpid status)
  {'t', 'op': 'eintr'}                  next/current blocking wait is interrupted
  {'t', 'op': 'echo', 'on': bool}
"""
import contextlib
import errno
import fcntl
import os as _os
import select as _select
import socket as _socket
import struct
import termios
import time as _time
import tty

import pexpect
import pexpect.expect
import pexpect.fdpexpect
import pexpect.pty_spawn
import pexpect.spawnbase
import pexpect.socket_pexpect
import pexpect.utils
import ptyprocess
import ptyprocess.ptyprocess

from ..common import HarnessError

TICK = 1e-6
FAKE_PID = 4194000


class Blocked(BaseException):
    """The reader entered a wait that no scripted event can ever end."""

    def __init__(self, where, t):
        BaseException.__init__(self, 'blocked forever in %s at t=+%.6f' % (where, t))
        self.where = where
        self.t = t


def _set_nonblock(fd):
    fl = fcntl.fcntl(fd, fcntl.F_GETFL)
    fcntl.fcntl(fd, fcntl.F_SETFL, fl | _os.O_NONBLOCK)


class Sim(object):

    def __init__(self, kind, actions, start=1000.0, echo=False):
        self.kind = kind
        self.t0 = start
        self.now = start
        self.ncalls = 0
        self.log = []                   # (t_rel, name, detail)
        # time-stamped actions, and actions pinned to the reader's n-th interposed call ('at_call': they fire
        # right before that call is carried out, whatever the clock says)
        self.actions = sorted([dict(a) for a in actions if 'at_call' not in a], key=lambda a: a['t'])
        self.call_actions = sorted([dict(a) for a in actions if 'at_call' in a], key=lambda a: a['at_call'])
        self.pending_out = b''
        self.close_requested = False
        self.peer_closed = False
        self.child_status = None        # raw wait status once exited
        self.child_reaped = False
        self.pending_eintr = False
        self.written = b''              # everything the peer has put on the wire so far
        self.pty_in = self.pty_out = 0  # bytes written on the slave side / read from the master side
        self.kills = []
        self.waits_blocking = 0
        self.sock_proxy = None
        if kind == 'pty':
            self.reader_fd, self.peer_fd = _os.openpty()
            tty.setraw(self.peer_fd)
            if echo:
                attr = termios.tcgetattr(self.peer_fd)
                attr[3] |= termios.ECHO
                termios.tcsetattr(self.peer_fd, termios.TCSANOW, attr)
            _set_nonblock(self.peer_fd)
        elif kind == 'pipe':
            self.reader_fd, self.peer_fd = _os.pipe()
            _set_nonblock(self.peer_fd)
        elif kind == 'socket':
            a, b = _socket.socketpair()
            self.rsock, self.psock = a, b
            b.setblocking(False)
            a.setblocking(False)
            self.reader_fd, self.peer_fd = a.fileno(), b.fileno()
            self.sock_proxy = SimSocket(self, a)
        else:
            raise HarnessError('unknown sim kind %r' % kind)
        self.fds = {self.reader_fd}

    # ------------------------------------------------------------------ time
    def rel(self):
        return self.now - self.t0

    def tick(self, name, detail=None):
        self.now += TICK
        self.ncalls += 1
        while self.call_actions and self.call_actions[0]['at_call'] <= self.ncalls:
            self.apply(self.call_actions.pop(0))
        self.log.append((round(self.rel(), 9), name, detail))
        self.fire_due()

    def next_action_time(self):
        return (self.t0 + self.actions[0]['t']) if self.actions else None

    def fire_due(self):
        while self.actions and self.t0 + self.actions[0]['t'] <= self.now + 1e-12:
            self.apply(self.actions.pop(0))
        self.flush_pending()

    # ----------------------------------------------------------------- peer
    def apply(self, a):
        op = a['op']
        self.log.append((round(self.rel(), 9), 'peer:' + op, len(a['data']) if op == 'write' else a.get('status')))
        if op == 'write':
            if self.peer_closed or self.close_requested:
                return
            self.pending_out += a['data']
            self.written += a['data']
            self.flush_pending()
        elif op == 'close':
            self.close_requested = True
            self.flush_pending()
        elif op == 'exit':
            if self.child_status is None:
                self.child_status = a['status']
        elif op == 'eintr':
            self.pending_eintr = True
        elif op == 'echo':
            if self.peer_closed:
                return
            attr = termios.tcgetattr(self.peer_fd)
            if a['on']:
                attr[3] |= termios.ECHO
            else:
                attr[3] &= ~termios.ECHO
            termios.tcsetattr(self.peer_fd, termios.TCSANOW, attr)
        else:
            raise HarnessError('unknown peer action %r' % op)

    def flush_pending(self):
        if self.peer_closed:
            return
        while self.pending_out:
            try:
                if self.kind == 'socket':
                    n = self.psock.send(self.pending_out)
                else:
                    n = _os.write(self.peer_fd, self.pending_out)
            except (BlockingIOError, InterruptedError):
                break
            except OSError as e:
                if e.errno in (errno.EAGAIN, errno.EWOULDBLOCK):
                    break
                if e.errno in (errno.EPIPE, errno.EIO, errno.ECONNRESET, errno.EBADF):
                    self.pending_out = b''      # reader went away
                    break
                raise
            if n <= 0:
                break
            self.pending_out = self.pending_out[n:]
            if self.kind == 'pty':
                self.pty_in += n
                self._pty_settle()
        if self.close_requested and not self.pending_out:
            self._close_peer()

    def _pty_settle(self):
        # the kernel moves what the slave side wrote to the master's queue from a worker, not inside write():
        # on a busy machine a zero-timeout select() straight after the write can still say "nothing there", which
        # in virtual time would look like text that arrived late.  Wait (real time, bounded) until it is there.
        want = min(self.pty_in - self.pty_out, 2048)
        t_end = _time.time() + 2.0
        while want > 0 and _time.time() < t_end:
            try:
                have = struct.unpack('i', fcntl.ioctl(self.reader_fd, termios.FIONREAD, b'\0\0\0\0'))[0]
            except (OSError, ValueError):
                return
            if have >= want:
                return
            _time.sleep(0.0002)

    def _close_peer(self):
        if self.peer_closed:
            return
        self.peer_closed = True
        try:
            if self.kind == 'socket':
                self.psock.close()
            else:
                _os.close(self.peer_fd)
        except OSError:
            pass

    # ------------------------------------------------------------- waiting
    def _real_ready(self, fds):
        try:
            r, _, _ = _select.select(list(fds), [], [], 0)
        except (OSError, ValueError):
            return list(fds)        # closed descriptor: let the real call report it
        return r

    def wait(self, where, ready_fn, timeout, eintr=True):
        """Virtual-time blocking wait.  ready_fn() polls the real kernel with a
        zero timeout.  Returns ready_fn()'s result (possibly empty on expiry)."""
        deadline = None if timeout is None else self.now + max(timeout, 0)
        if timeout is None or timeout > 0:
            self.waits_blocking += 1
        while True:
            if self.pending_eintr and eintr:
                self.pending_eintr = False
                self.log.append((round(self.rel(), 9), 'EINTR', where))
                raise InterruptedError(errno.EINTR, 'Interrupted system call')
            r = ready_fn()
            if r:
                return r
            nxt = self.next_action_time()
            if deadline is not None and (nxt is None or nxt >= deadline):
                self.now = max(self.now, deadline)
                return ready_fn()
            if nxt is None:
                if self.pending_out:
                    # cannot happen: pending output is flushed whenever the reader reads
                    self.flush_pending()
                    if ready_fn():
                        continue
                raise Blocked(where, self.rel())
            self.now = max(self.now, nxt)
            self.fire_due()

    # ---------------------------------------------------------- teardown
    reader_closed = False

    def cleanup(self):
        for fd in (self.reader_fd, self.peer_fd):
            if self.kind == 'socket':
                continue
            if fd == self.reader_fd and self.reader_closed:
                continue
            if fd == self.peer_fd and self.peer_closed:
                continue
            try:
                _os.close(fd)
            except OSError:
                pass
        if self.kind == 'socket':
            for s in (self.rsock, self.psock):
                try:
                    s.close()
                except OSError:
                    pass

    # ----------------------------------------------------------- install
    @contextlib.contextmanager
    def installed(self):
        osp, tp, sp = OsProxy(self), TimeProxy(self), SelectProxy(self)
        targets = [
            (pexpect.utils, 'select', sp), (pexpect.utils, 'time', tp),
            (pexpect.expect, 'time', tp),
            (pexpect.pty_spawn, 'time', tp), (pexpect.pty_spawn, 'os', osp),
            (pexpect.spawnbase, 'os', osp),
            (pexpect.fdpexpect, 'os', osp),
            (ptyprocess.ptyprocess, 'os', osp), (ptyprocess.ptyprocess, 'time', tp),
        ]
        saved = []
        self.uninterposed = []
        for mod, name, proxy in targets:
            if not hasattr(mod, name):
                # an edited tree may import the names differently: the real call then runs on the
                # real kernel object; content oracles stay valid, virtual-time oracles are skipped
                self.uninterposed.append('%s.%s' % (mod.__name__, name))
                continue
            saved.append((mod, name, getattr(mod, name)))
            setattr(mod, name, proxy)
        try:
            yield self
        finally:
            for mod, name, orig in saved:
                setattr(mod, name, orig)


class TimeProxy(object):

    def __init__(self, sim):
        self._sim = sim
        self._idle_sleeps = 0
        self._last_ncalls = -1

    def time(self):
        return self._sim.now

    def monotonic(self):
        return self._sim.now

    def sleep(self, s):
        sim = self._sim
        sim.log.append((round(sim.rel(), 9), 'sleep', s))
        # a polling loop (sleep, look, sleep, ...) that no scripted event can end any more
        if not sim.actions and sim.ncalls == self._last_ncalls:
            self._idle_sleeps += 1
            if self._idle_sleeps > 2000:
                raise Blocked('sleep-poll loop', sim.rel())
        else:
            self._idle_sleeps = 0
            self._last_ncalls = sim.ncalls
        end = sim.now + max(s or 0, 0)
        while True:
            nxt = sim.next_action_time()
            if nxt is None or nxt > end:
                break
            sim.now = max(sim.now, nxt)
            sim.fire_due()
        sim.now = max(sim.now, end)
        sim.fire_due()

    def __getattr__(self, name):
        return getattr(_time, name)


class _Poller(object):

    def __init__(self, sim):
        self._sim = sim
        self._p = _select.poll()
        self._fds = []

    def register(self, fd, mask=_select.POLLIN | _select.POLLPRI | _select.POLLOUT):
        self._fds.append(fd)
        return self._p.register(fd, mask)

    def unregister(self, fd):
        return self._p.unregister(fd)

    def modify(self, fd, mask):
        return self._p.modify(fd, mask)

    def poll(self, timeout_ms=None):
        sim = self._sim
        sim.tick('poll', None if timeout_ms is None else timeout_ms / 1000.0)
        if timeout_ms is not None and timeout_ms < 0:
            timeout_ms = None           # poll(2): a negative timeout means infinite
        return sim.wait('poll', lambda: self._p.poll(0), None if timeout_ms is None else timeout_ms / 1000.0)


class SelectProxy(object):
    error = _select.error

    def __init__(self, sim):
        self._sim = sim

    def select(self, r, w, x, timeout=None):
        sim = self._sim
        sim.tick('select', timeout)
        if timeout is not None and timeout < 0:
            return _select.select(r, w, x, timeout)         # raises ValueError, as the real one
        if w or x:
            return _select.select(r, w, x, 0)
        got = sim.wait('select', lambda: _select.select(r, [], [], 0)[0], timeout)
        return (got, [], [])

    def poll(self):
        return _Poller(self._sim)

    def __getattr__(self, name):
        return getattr(_select, name)


class OsProxy(object):
    """Delegates to the real os module; read/waitpid/kill see the Sim."""

    def __init__(self, sim):
        self._sim = sim

    def __getattr__(self, name):
        return getattr(_os, name)

    def read(self, fd, n):
        sim = self._sim
        if fd in sim.fds:
            sim.tick('read', n)
            if not sim._real_ready([fd]):
                # a read on a descriptor that is not ready would block the process
                sim.wait('read', lambda: sim._real_ready([fd]), None, eintr=False)
            try:
                data = _os.read(fd, n)
                sim.pty_out += len(data)
                return data
            finally:
                sim.flush_pending()
        return _os.read(fd, n)

    def waitpid(self, pid, options):
        sim = self._sim
        if pid != FAKE_PID:
            return _os.waitpid(pid, options)
        sim.tick('waitpid', 'WNOHANG' if options & _os.WNOHANG else 'blocking')
        if sim.child_reaped:
            raise ChildProcessError(errno.ECHILD, 'No child processes')
        if sim.child_status is None:
            if options & _os.WNOHANG:
                return (0, 0)
            # blocking form: wait for the scripted exit
            sim.waits_blocking += 1
            while sim.child_status is None:
                nxt = sim.next_action_time()
                if nxt is None:
                    raise Blocked('waitpid', sim.rel())
                sim.now = max(sim.now, nxt)
                sim.fire_due()
        sim.child_reaped = True
        return (pid, sim.child_status)

    def kill(self, pid, sig):
        sim = self._sim
        if pid != FAKE_PID:
            return _os.kill(pid, sig)
        sim.tick('kill', sig)
        if sim.child_reaped:
            raise ProcessLookupError(errno.ESRCH, 'No such process')
        sim.kills.append(sig)
        import signal
        if sig in (signal.SIGKILL, signal.SIGTERM, signal.SIGHUP, signal.SIGINT) and sim.child_status is None:
            sim.child_status = int(sig)         # raw status of "killed by sig"
            sim.close_requested = True
            sim.flush_pending()


class SimSocket(object):
    """Stands in for the socket object a SocketSpawn owns: recv() waits in
    virtual time under the socket's own timeout, which is what the transport
    sets and must restore."""

    def __init__(self, sim, real):
        self._sim = sim
        self._real = real
        self._timeout = None
        self.timeout_history = []

    def fileno(self):
        return self._real.fileno()

    def gettimeout(self):
        return self._timeout

    def settimeout(self, t):
        if t is not None and t < 0:
            raise ValueError('Timeout value out of range')
        self._timeout = t
        self.timeout_history.append(t)

    def setblocking(self, flag):
        self.settimeout(None if flag else 0.0)

    def recv(self, n, flags=0):
        sim = self._sim
        sim.tick('recv', (n, self._timeout))
        fd = self._real.fileno()
        if self._timeout == 0:
            try:
                return self._real.recv(n, flags)
            finally:
                sim.flush_pending()
        r = sim.wait('recv', lambda: sim._real_ready([fd]), self._timeout, eintr=False)
        if not r:
            raise _socket.timeout('timed out')
        try:
            return self._real.recv(n, flags)
        finally:
            sim.flush_pending()

    def sendall(self, b):
        return self._real.sendall(b)

    def send(self, b):
        return self._real.send(b)

    def shutdown(self, how):
        return self._real.shutdown(how)

    def close(self):
        return self._real.close()

    def __str__(self):
        return '<SimSocket fd=%d>' % self._real.fileno()


# ---------------------------------------------------------------------------
# readers

def make_reader(sim, use_poll=False, **kw):
    """The real transport object over the Sim's kernel object."""
    if sim.kind == 'pty':
        sp = pexpect.spawn(None, use_poll=use_poll, **kw)
        sp.ptyproc = ptyprocess.PtyProcess(FAKE_PID, sim.reader_fd)
        sp.pid = FAKE_PID
        sp.child_fd = sim.reader_fd
        sp.closed = False
        sp.terminated = False
        sp.name = '<sim pty>'
        sp.delaybeforesend = None
        return sp
    if sim.kind == 'pipe':
        sp = pexpect.fdpexpect.fdspawn(sim.reader_fd, use_poll=use_poll, **kw)
        return sp
    sp = pexpect.socket_pexpect.SocketSpawn(sim.sock_proxy, use_poll=use_poll, **kw)
    return sp


def dispose_reader(sim, sp):
    """Detach the reader without running pexpect/ptyprocess teardown code."""
    try:
        if sim.kind == 'pty' and hasattr(sp, 'ptyproc'):
            pp = sp.ptyproc
            pp.closed = True
            pp.terminated = True
            try:
                pp.fileobj.close()
                sim.reader_closed = True
            except Exception:
                pass
        sp.closed = True
        sp.child_fd = -1
    except Exception:
        pass
