"""Send/receive histories against a recording peer, on all four transports.

The peer (peers/rawpeer.py under a pty or a Popen pipe pair, or an in-process
thread on the far end of a socketpair for fdspawn / SocketSpawn) records every
byte it receives.  The harness serialises the history:
  * send-family operations go through the object under test;
  * for a read operation the harness writes a unique trigger *directly* to the
    transport (not through pexpect); the peer, which records until it sees that
    trigger, then writes the scripted chunk, which the object under test reads;
  * at the end an END marker is written directly and the peer stops.
Triggers and the END marker are removed from the recording, which is then the
ground truth of what the send family put on the wire, in order.
"""
import os
import socket
import threading
import time

import pexpect
from pexpect import fdpexpect, socket_pexpect
from pexpect.exceptions import EOF, TIMEOUT

from ..common import Violation, HarnessError
from . import peers

END = b'<<VERIF-END-7f3a9c>>'


def trig(k):
    return ('<<VERIF-TRG-%04d>>' % k).encode('ascii')


class ThreadPeer(threading.Thread):
    """In-process peer on a socket: same actions as rawpeer.py."""

    def __init__(self, sock, actions):
        threading.Thread.__init__(self)
        self.daemon = True
        self.sock = sock
        self.actions = actions
        self.recorded = bytearray()
        self.pos = 0
        self.error = None

    def _readsome(self):
        try:
            d = self.sock.recv(65536)
        except OSError:
            return b''
        self.recorded.extend(d)
        return d

    def run(self):
        try:
            for a in self.actions:
                if a[0] == 'w':
                    self.sock.sendall(bytes.fromhex(a[1]))
                elif a[0] == 'recuntil':
                    mark = bytes.fromhex(a[1])
                    while True:
                        k = self.recorded.find(mark, self.pos)
                        if k >= 0:
                            self.pos = k + len(mark)
                            break
                        if not self._readsome():
                            return
                elif a[0] == 's':
                    time.sleep(a[1])
        except Exception as e:      # pragma: no cover
            self.error = e


class Session(object):
    """One object under test connected to one recording peer."""

    def __init__(self, transport, read_chunks, encoding=None, codec_errors='strict', **kw):
        """read_chunks: list of bytes the peer will write, one per read operation."""
        self.transport = transport
        self.nreads = len(read_chunks)
        actions = []
        for k, ch in enumerate(read_chunks):
            actions.append(['recuntil', trig(k).hex()])
            actions.append(['w', ch.hex()])
        actions.append(['recuntil', END.hex()])
        self.ps = None
        self.thread = None
        self.k = 0
        kw = dict(kw)
        kw.setdefault('timeout', 30)
        if transport not in ('fd', 'socket'):
            kw.pop('small_sndbuf', None)
            kw.pop('sock_timeout', None)
        if encoding:
            kw['encoding'] = encoding
            kw['codec_errors'] = codec_errors
        if transport == 'pty':
            self.child, self.ps = peers.pty_peer(actions, raw=True, record=True, wait_ready=True, **kw)
            self.child.delaybeforesend = None
            self._raw_write = lambda b: _write_all(self.child.child_fd, b)
        elif transport == 'popen':
            self.child, self.ps = peers.popen_peer(actions, record=True, wait_ready=False, **kw)
            self._raw_write = lambda b: (self.child.proc.stdin.write(b), self.child.proc.stdin.flush())
        else:
            a, b = socket.socketpair()
            if kw.pop('small_sndbuf', False):
                # a send buffer much smaller than the big payloads: one send() cannot take them in one go
                a.setsockopt(socket.SOL_SOCKET, socket.SO_SNDBUF, 4096)
            st_ = kw.pop('sock_timeout', None)
            if st_ is not None and transport == 'socket':
                a.settimeout(st_)          # a socket with a timeout is non-blocking underneath
            self.a, self.b = a, b
            self.thread = ThreadPeer(b, actions)
            self.thread.start()
            if transport == 'fd':
                self.child = fdpexpect.fdspawn(a.fileno(), **kw)
            else:
                self.child = socket_pexpect.SocketSpawn(a, **kw)
            self._raw_write = a.sendall

    def trigger_read(self):
        """Ask the peer for the next scripted chunk (written directly, not through pexpect)."""
        if self.k >= self.nreads:
            raise HarnessError('more reads than scripted chunks')
        self._raw_write(trig(self.k))
        self.k += 1

    def finish(self):
        """End the dialogue; returns the bytes the peer received from the send family."""
        # release the peer from triggers it is still waiting for
        while self.k < self.nreads:
            self._raw_write(trig(self.k))
            self.k += 1
        self._raw_write(END)
        if self.transport == 'pty':
            deadline = time.time() + 30
            while self.child.isalive() and time.time() < deadline:
                try:
                    self.child.read_nonblocking(65536, 0.05)
                except (EOF, TIMEOUT):
                    pass
            rec = self.ps.received()
        elif self.transport == 'popen':
            try:
                self.child.proc.wait(timeout=30)
            except Exception:
                pass
            rec = self.ps.received()
        else:
            self.thread.join(30)
            if self.thread.is_alive():
                raise Violation('peer-stuck', 'the peer never saw the END marker: bytes went missing on the wire')
            rec = bytes(self.thread.recorded)
        for k in range(self.nreads):
            rec = rec.replace(trig(k), b'', 1)
        if not rec.endswith(END):
            raise Violation('peer-stuck', 'the END marker did not arrive intact (recorded tail %r)' % rec[-40:])
        return rec[:-len(END)]

    def close(self):
        try:
            if self.transport == 'pty':
                peers.reap(self.child)
            elif self.transport == 'popen':
                peers.reap_popen(self.child)
            else:
                for s in (self.a, self.b):
                    try:
                        s.close()
                    except OSError:
                        pass
        finally:
            if self.ps:
                self.ps.cleanup()


def _write_all(fd, b):
    while b:
        n = os.write(fd, b)
        b = b[n:]
