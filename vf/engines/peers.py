"""E3: real peers (wall clock).

* PeerScript: writes a script for peers/rawpeer.py into a private temp dir and
  reads back what the child recorded (ground truth of what it received).
* pty_peer / popen_peer: start the scripted child under pexpect.spawn /
  PopenSpawn and wait for its READY token.
* RecLog: in-memory log file recording each write payload and whether a
  flush followed before the next write.
"""
import json
import os
import shutil
import sys
import tempfile

import pexpect
from pexpect.popen_spawn import PopenSpawn

from ..common import VERIF, Violation, HarnessError

PY = sys.executable
RAWPEER = os.path.join(VERIF, 'peers', 'rawpeer.py')
READY = 'READY\n'


class RecLog(object):

    def __init__(self):
        self.writes = []        # payloads
        self.flushed = []       # flushed[i]: a flush followed write i before the next write
        self.closed = False

    def write(self, s):
        self.writes.append(s)
        self.flushed.append(False)

    def flush(self):
        if self.flushed:
            self.flushed[-1] = True

    def joined(self, empty):
        out = empty
        for w in self.writes:
            out += w
        return out


class PeerScript(object):

    def __init__(self, actions, raw=True, ready=READY, record=True):
        self.dir = tempfile.mkdtemp(prefix='vfpeer_')
        self.record = os.path.join(self.dir, 'received') if record else None
        self.path = os.path.join(self.dir, 'script.json')
        with open(self.path, 'w') as f:
            json.dump({'raw': raw, 'ready': ready, 'record': self.record, 'actions': actions}, f)
        self.argv = [PY, '-S', '-E', RAWPEER, self.path]

    def received(self):
        if not self.record or not os.path.exists(self.record):
            return b''
        with open(self.record, 'rb') as f:
            return f.read()

    def cleanup(self):
        shutil.rmtree(self.dir, ignore_errors=True)


def pty_peer(actions, raw=True, record=True, wait_ready=True, **kw):
    """Returns (spawn, PeerScript).  The READY token has been consumed
    (wait_ready=False: the child prints no token at all)."""
    ps = PeerScript(actions, raw=raw, record=record, ready=(READY if wait_ready else None))
    kw.setdefault('timeout', 20)
    try:
        child = pexpect.spawn(ps.argv[0], ps.argv[1:], **kw)
        if wait_ready:
            tok = READY if child.encoding else READY.encode('ascii')
            if not raw:
                tok = tok.replace('\n' if child.encoding else b'\n', '\r\n' if child.encoding else b'\r\n')
            child.expect_exact(tok, timeout=90)
    except Exception:
        ps.cleanup()
        raise
    return child, ps


def popen_peer(actions, record=True, wait_ready=True, **kw):
    ps = PeerScript(actions, raw=False, record=record, ready=(READY if wait_ready else None))
    kw.setdefault('timeout', 20)
    try:
        child = PopenSpawn(ps.argv, **kw)
        if wait_ready:
            child.expect_exact(READY if child.encoding else READY.encode("ascii"), timeout=90)
    except Exception:
        ps.cleanup()
        raise
    return child, ps


def reap(child):
    """Best-effort teardown of a pty child (never raises)."""
    try:
        child.delayafterclose = 0.02
        child.delayafterterminate = 0.02
        child.close(force=True)
    except Exception:
        try:
            import signal
            os.kill(child.pid, signal.SIGKILL)
            os.waitpid(child.pid, 0)
        except Exception:
            pass


def reap_popen(child):
    try:
        if child.proc.poll() is None:
            child.proc.kill()
        child.proc.wait()
        for f in (child.proc.stdin, child.proc.stdout):
            try:
                if f:
                    f.close()
            except Exception:
                pass
    except Exception:
        pass
