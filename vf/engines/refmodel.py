"""E1: naive reference model of the expect family.

Pending text P.  A call with entries L and search window W:
  search P (or its last W characters - on the *sliced* text) for every text
  pattern; take the smallest start, the first-listed pattern on ties.
  Hit  -> (index, before=P[:s], after=P[s:e], P := P[e:]).
  Miss -> consume one script item:
      chunk   -> P += decoded chunk, search again
      TIMEOUT -> (timeout index or raise TIMEOUT), before=P, P unchanged
      EOF     -> (eof index or raise EOF), before=P, P := ''
read(n) / read(-1) / readline / readlines / iteration are expressed through
the same primitive exactly as their docstrings say.

The model is deliberately written without any of the incremental shortcuts of
pexpect.expect (no freshlen, no look-back trimming, no window rebuilding).
"""
import codecs
import re


class Outcome(object):
    __slots__ = ('kind', 'index', 'raises', 'before', 'after', 'span', 'groups',
                 'pending', 'reads', 'searched', 'searched_off', 'pat')

    def __init__(self, **kw):
        for k in self.__slots__:
            setattr(self, k, kw.get(k))

    def as_dict(self):
        return {k: getattr(self, k) for k in self.__slots__ if k not in ('pat',)}


def find_best(text, entries):
    """entries: list of ('re', compiled) | ('ex', string) | 'EOF' | 'TIMEOUT'.
    Returns (index, start, end, matchobj_or_None) or None.  Leftmost start,
    lowest index on ties."""
    best = None
    for i, e in enumerate(entries):
        if e == 'EOF' or e == 'TIMEOUT':
            continue
        kind, p = e
        if kind == 're':
            m = p.search(text)
            if m is None:
                continue
            s, t = m.start(), m.end()
        else:
            s = text.find(p)
            if s < 0:
                continue
            t, m = s + len(p), None
        if best is None or s < best[1]:
            best = (i, s, t, m)
    return best


class Model(object):

    def __init__(self, script, tail, encoding=None, errors='strict', maxread=2000):
        self.script = [tuple(i) for i in script]
        self.tail = tail
        self.maxread = maxread
        self.text_mode = encoding is not None
        self.decoder = codecs.getincrementaldecoder(encoding)(errors) if encoding else None
        self.P = '' if self.text_mode else b''
        self.eof = False
        self.reads = 0
        self.delivered = []

    def empty(self):
        return '' if self.text_mode else b''

    # -- transport side ---------------------------------------------------
    def _next(self):
        """Returns ('d', text, late) | ('t',) | ('e',)"""
        self.reads += 1
        if self.eof:
            return ('e',)
        if self.script:
            item = self.script.pop(0)
        else:
            item = ('e',) if self.tail == 'eof' else ('t',)
        kind = item[0]
        if kind == 'e':
            self.eof = True
            return ('e',)
        if kind == 't':
            return ('t',)
        data = item[1]
        if len(data) > self.maxread:
            self.script.insert(0, (kind, data[self.maxread:]))
            data = data[:self.maxread]
            kind = 'd'
        s = self.decoder.decode(data, False) if self.decoder else data
        self.delivered.append(s)
        return ('d', s, kind == 'df')

    # -- the primitive ----------------------------------------------------
    def _search(self, entries, W):
        P = self.P
        text = P[-W:] if W else P
        off = len(P) - len(text)
        r = find_best(text, entries)
        if r is None:
            return None
        i, s, t, m = r
        return i, s + off, t + off, m, text, off

    def expect(self, entries, W=None):
        """entries as for find_best.  Returns an Outcome."""
        reads0 = self.reads
        eof_i = entries.index('EOF') if 'EOF' in entries else -1
        to_i = entries.index('TIMEOUT') if 'TIMEOUT' in entries else -1
        late = False
        while True:
            r = self._search(entries, W)
            if r is not None:
                i, s, t, m, text, off = r
                P = self.P
                o = Outcome(kind='match', index=i, raises=None, before=P[:s], after=P[s:t],
                            span=(s - off, t - off), groups=(m.groups() if m is not None else None),
                            pending=P[t:], reads=self.reads - reads0, searched=text,
                            searched_off=off, pat=entries[i][1])
                self.P = P[t:]
                return o
            if late:
                item = ('t',)
                self.reads += 0
            else:
                item = self._next()
            if item[0] == 'd':
                self.P = self.P + item[1]
                late = item[2]
                continue
            if item[0] == 't':
                return Outcome(kind='timeout', index=(to_i if to_i >= 0 else None),
                               raises=(None if to_i >= 0 else 'TIMEOUT'), before=self.P,
                               after='TIMEOUT', pending=self.P, reads=self.reads - reads0)
            before = self.P
            self.P = self.empty()
            return Outcome(kind='eof', index=(eof_i if eof_i >= 0 else None),
                           raises=(None if eof_i >= 0 else 'EOF'), before=before,
                           after='EOF', pending=self.P, reads=self.reads - reads0)

    def set_buffer(self, v):
        self.P = v
