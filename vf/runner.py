"""./check <ID> <quick|thorough> [--replay FILE]

Runs the property module vf/props/<id>.py: deterministic probes first, then
its shards on a 16-process pool; merges the workers' collectors; writes
evidence/<ID>.json; prints VIOLATION / KNOWN-FINDING lines.

Exit codes: 0 property held on everything explored (known findings are
listed, not alarms); 1 at least one violation not listed as an open known
finding; 2 harness error (never reported as a violation).
"""
import importlib
import json
import multiprocessing
import os
import sys
import time
import traceback

from . import common
from .common import Violation, HarnessError, Collector, to_jsonable, from_jsonable

VERIF = common.VERIF
OUT = os.environ.get('VERIF_OUT') or VERIF      # evidence/ and replays/ go here (mutant runs redirect it)


def load_known(pid):
    path = os.path.join(VERIF, 'known_findings.json')
    if not os.path.exists(path):
        return {}, {}
    with open(path) as f:
        data = json.load(f)
    open_, fixed = {}, {}
    for e in data.get('findings', []):
        if e.get('property') != pid:
            continue
        if e.get('status') == 'open':
            open_[e['key']] = e
        else:
            fixed[e['key']] = e
    return open_, fixed


def _worker(args):
    modname, spec, seed, idx, deadline_ts = args
    try:
        mod = importlib.import_module(modname)
        common.assert_repo_tree()
        col = mod.run_shard(spec, seed, idx, deadline_ts)
        out = col.export()
        out['spec'] = spec
        return out
    except BaseException as e:          # harness error in the worker
        return {'harness_error': ''.join(traceback.format_exception(type(e), e, e.__traceback__)),
                'spec': spec}


def merge(results):
    m = {'evaluations': 0, 'nontrivial': set(), 'labels': {}, 'samples': [],
         'failures': [], 'excluded_known': 0, 'discarded': 0, 'notes': [],
         'extra': {}, 'inconclusive': False, 'per_shard': []}
    for r in results:
        m['evaluations'] += r['evaluations']
        m['nontrivial'].update(bytes(x) if not isinstance(x, bytes) else x for x in r['nontrivial'])
        for k, v in r['labels'].items():
            m['labels'][k] = m['labels'].get(k, 0) + v
        for k, v in r['extra'].items():
            m['extra'][k] = m['extra'].get(k, 0) + v
        m['samples'].extend(r['samples'][:2])
        for f in r['failures']:
            f = dict(f)
            f['spec'] = r.get('spec')
            m['failures'].append(f)
        m['excluded_known'] += r['excluded_known']
        m['discarded'] += r['discarded']
        m['notes'].extend(r['notes'])
        m['inconclusive'] = m['inconclusive'] or r['inconclusive']
        m['per_shard'].append({'spec': r.get('spec'), 'evaluations': r['evaluations'],
                               'nontrivial': len(r['nontrivial'])})
    return m


def write_replay(pid, failure):
    os.makedirs(os.path.join(OUT, 'replays'), exist_ok=True)
    body = {'property': pid, 'key': failure['key'], 'what': failure['what'],
            'case': failure['case'], 'spec': failure.get('spec')}
    h = common.case_hash(body).hex()
    path = os.path.join(OUT, 'replays', '%s-%s.json' % (pid, h))
    with open(path, 'w') as f:
        json.dump(body, f, indent=1, sort_keys=True)
    return path


def write_evidence(pid, tier, seed, mod, m, wall, n_viol, known_lines):
    cov = {
        'evaluations': int(m['evaluations']),
        'distinct_nontrivial': len(m['nontrivial']),
        'rule': mod.RULE,
        'samples': m['samples'][:8],
        'labels': dict(sorted(m['labels'].items())),
        'excluded_known': m['excluded_known'],
        'discarded_by_generator_filter': m['discarded'],
        'inconclusive_budget_hit': bool(m['inconclusive']),
        'per_shard': m['per_shard'],
    }
    for k, v in sorted(m['extra'].items()):
        cov[k] = v
    if getattr(mod, 'EXHAUSTIVE_NOTE', None) and m['extra'].get('exhaustive_cases'):
        cov['exhaustive_subsweep'] = mod.EXHAUSTIVE_NOTE
    if m['notes']:
        cov['notes'] = sorted(set(m['notes']))[:20]
    if known_lines:
        cov['known_findings_reported'] = known_lines
    ev = {
        'property_id': pid,
        'tier': tier,
        'seed': seed,
        'level': 'exploration',
        'coverage': cov,
        'assumptions': list(mod.ASSUMPTIONS),
        'wall_s': round(wall, 2),
        'violations': n_viol,
    }
    os.makedirs(os.path.join(OUT, 'evidence'), exist_ok=True)
    path = os.path.join(OUT, 'evidence', '%s.json' % pid)
    tmp = path + '.tmp'
    with open(tmp, 'w') as f:
        json.dump(ev, f, indent=1, sort_keys=True)
    os.replace(tmp, path)
    return path


def _default_signal_dispositions():
    """Ignored signals are inherited through fork and exec.  Started under nohup (SIGHUP ignored) or as a
    background job of a non-interactive shell (SIGINT and SIGQUIT ignored), every child of every check would
    ignore those signals too and `kill -HUP $$` would not be the fate of the child any more.  The checks assume
    the dispositions of an ordinary foreground process."""
    import signal
    for num in range(1, signal.NSIG):
        if num in (signal.SIGPIPE, getattr(signal, 'SIGXFSZ', -1)):
            continue        # ignored by Python itself
        try:
            if signal.getsignal(num) == signal.SIG_IGN:
                signal.signal(num, signal.SIG_DFL)
        except (OSError, ValueError, RuntimeError):
            pass


def main(argv=None):
    argv = list(sys.argv[1:] if argv is None else argv)
    if len(argv) < 2:
        print(__doc__)
        return 2
    pid = argv[0].upper()
    tier = argv[1]
    replay = None
    if '--replay' in argv:
        replay = argv[argv.index('--replay') + 1]
        tier = 'quick'
    if tier not in ('quick', 'thorough'):
        print('tier must be quick or thorough')
        return 2
    seed = int(os.environ.get('VERIF_SEED', '1') or '1')
    _default_signal_dispositions()
    modname = 'vf.props.%s' % pid.lower()
    t0 = time.time()
    try:
        common.assert_repo_tree()
        mod = importlib.import_module(modname)
    except Exception:
        traceback.print_exc()
        print('HARNESS-ERROR property=%s (import)' % pid)
        return 2

    if replay:
        with open(replay) as f:
            body = json.load(f)
        case = from_jsonable(body['case'])
        try:
            if isinstance(case, dict) and set(case) == {'probe'}:
                # the failing "case" is one of the module's deterministic probes
                fns = [fn for key, what, fn in getattr(mod, 'PROBES', []) if key == case['probe']]
                if not fns:
                    print('HARNESS-ERROR property=%s (no probe %r)' % (pid, case['probe']))
                    return 2
                with common.case_watchdog(getattr(mod, 'PROBE_TIMEOUT', 300), 'probe %s' % case['probe']):
                    fns[0]()
            else:
                mod.replay(case, body.get('spec'))
        except Violation as v:
            print('reproduced: %s' % v)
            print('VIOLATION property=%s replay=%s' % (pid, replay))
            return 1
        except Exception:
            traceback.print_exc()
            print('HARNESS-ERROR property=%s (replay)' % pid)
            return 2
        print('replay passed: property=%s %s' % (pid, replay))
        return 0

    budget = float(os.environ.get('VERIF_BUDGET_S', 0) or 0) or \
        getattr(mod, 'BUDGET', {}).get(tier, 240 if tier == 'quick' else 1500)
    deadline_ts = t0 + budget
    open_known, fixed_known = load_known(pid)

    # 1. deterministic probes (regression checks for recorded findings and
    #    other hand-picked boundary cases)
    probe_failures = []
    n_probes = 0
    for key, what, fn in getattr(mod, 'PROBES', []):
        n_probes += 1
        try:
            # a probe that does not come back (the code under test loops or blocks) is a finding, not a hung check
            with common.case_watchdog(getattr(mod, 'PROBE_TIMEOUT', 300), 'probe %s' % key):
                fn()
        except Violation as v:
            # the key names the probe *and* the oracle clause that failed, so that a
            # different failure inside the same probe is a different finding
            probe_failures.append({'key': '%s/%s' % (key, v.key), 'what': '%s [probe: %s]' % (v.what, what),
                                   'case': {'probe': key}, 'spec': {'probe': key}})
        except Exception:
            traceback.print_exc()
            print('HARNESS-ERROR property=%s (probe %s)' % (pid, key))
            return 2

    # 2. generated search
    specs = mod.shards(tier)
    jobs = [(modname, spec, seed, i, deadline_ts) for i, spec in enumerate(specs)]
    nproc = min(int(os.environ.get('VERIF_PROCS', '16')), getattr(mod, 'PROCS', 16))
    ctx = multiprocessing.get_context('fork')
    if nproc <= 1 or len(jobs) <= 1:
        results = [_worker(j) for j in jobs]
    else:
        with ctx.Pool(min(nproc, len(jobs)), maxtasksperchild=1) as pool:
            results = pool.map(_worker, jobs, chunksize=1)
    herr = [r for r in results if 'harness_error' in r]
    if herr:
        for r in herr[:3]:
            print('--- harness error in shard %r' % (r.get('spec'),))
            print(r['harness_error'])
        print('HARNESS-ERROR property=%s' % pid)
        return 2
    m = merge(results)
    m['extra']['probes_run'] = n_probes
    m['failures'] = probe_failures + m['failures']

    # 3. report
    seen = set()
    n_viol = 0
    known_lines = []
    out_lines = []
    for f in m['failures']:
        if f['key'] in seen:
            continue
        seen.add(f['key'])
        if f['key'] in open_known:
            line = 'KNOWN-FINDING: property=%s %s [%s]' % (pid, open_known[f['key']]['what'], f['key'])
            known_lines.append(line)
            out_lines.append(line)
        else:
            path = write_replay(pid, f)
            n_viol += 1
            out_lines.append('violation: %s -- %s' % (f['key'], f['what']))
            out_lines.append('VIOLATION property=%s replay=%s' % (pid, os.path.relpath(path, OUT)))
    wall = time.time() - t0
    write_evidence(pid, tier, seed, mod, m, wall, n_viol, known_lines)
    for l in out_lines:
        print(l)
    print('%s %s: %d cases, %d distinct non-trivial, %d violation(s), %d known finding(s), %.1fs%s'
          % (pid, tier, m['evaluations'], len(m['nontrivial']), n_viol, len(known_lines), wall,
             ' [budget hit: inconclusive beyond what ran]' if m['inconclusive'] else ''))
    return 1 if n_viol else 0


if __name__ == '__main__':
    sys.exit(main())
