#!/bin/bash
# Offline setup: make sure hypothesis is importable in /venv and atheris in /verif/.deps.
here="$(cd "$(dirname "${BASH_SOURCE[0]}")" && pwd)"
cd "$here" || exit 1
export PIP_NO_INDEX=1
/venv/bin/python -c "import hypothesis" 2>/dev/null || \
  /venv/bin/pip install -q --no-index --find-links /opt/veriftools/wheels hypothesis || exit 1
if ! PYTHONPATH="$here/.deps" /venv/bin/python -c "import atheris" 2>/dev/null; then
  /venv/bin/pip install -q --no-index --find-links /opt/veriftools/wheels --target "$here/.deps" atheris \
    || echo "note: atheris not installable; the C18 fuzz sub-tier will be skipped"
fi
mkdir -p "$here/evidence" "$here/replays"
/venv/bin/python -c "import hypothesis, pexpect, ptyprocess; print('setup ok: hypothesis', hypothesis.__version__, 'pexpect from', pexpect.__file__)"
