"""Probe child for C13: reports how it was started, as one hex-encoded JSON
line between markers on stdout.  Run with `python -S -E`."""
import json
import os
import signal
import sys

out = {}
out['argv'] = [os.fsencode(a).hex() for a in sys.argv[1:]]
out['cwd'] = os.fsencode(os.getcwd()).hex()
out['env'] = {os.fsencode(k).hex(): os.fsencode(v).hex() for k, v in os.environ.items()}
try:
    import fcntl, struct, termios
    rows, cols = struct.unpack('HHHH', fcntl.ioctl(0, termios.TIOCGWINSZ, b'\0' * 8))[:2]
    out['winsize'] = [rows, cols]
    out['echo'] = bool(termios.tcgetattr(0)[3] & termios.ECHO)
except Exception as e:
    out['winsize'] = None
    out['echo'] = None
out['sighup_ignored'] = signal.getsignal(signal.SIGHUP) == signal.SIG_IGN
sys.stdout.write('<<<' + json.dumps(out).encode('utf-8').hex() + '>>>\n')
sys.stdout.flush()
