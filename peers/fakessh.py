"""Scripted fake ssh client for C17 (run as: python -S -E fakessh.py <script.json> [ssh options ...]).

Ignores every ssh option.  Plays the dialogue in script['steps'] in order,
whatever it receives, and appends one JSON line per event to script['record']:
   {"step": i, "kind": ..., "event": "begin"|"line"|"shell", "data": ...}
Steps:
  ["hostkey"]            asks the host-key question, reads one line
  ["password"]           prints a password prompt, reads one line
  ["passphrase"]         prints a passphrase prompt, reads one line
  ["termtype"]           asks for the terminal type, reads one line
  ["denied"]             prints "Permission denied, please try again."
  ["banner", text]       prints text
  ["closed"]             prints "Connection closed by remote host" and exits
  ["silence", seconds]   sleeps
  ["exit"]               exits
  ["shell", flavour, prompt]   prints prompt, then behaves like a remote shell
                         (sh | csh | zsh) behind an echoing pty, until "exit"
The tty's own ECHO is switched off at start (as ssh does while it talks to the
user); in the shell step the received line is echoed back explicitly, as a
remote pty would.
"""
import json
import os
import sys
import time


def main():
    with open(sys.argv[1]) as f:
        sc = json.load(f)
    rec = os.open(sc['record'], os.O_WRONLY | os.O_CREAT | os.O_APPEND, 0o600)

    def note(i, kind, event, data=None):
        os.write(rec, (json.dumps({'step': i, 'kind': kind, 'event': event, 'data': data}) + '\n').encode('utf-8'))

    note(-1, 'argv', 'argv', sys.argv[2:])

    try:
        import termios
        attr = termios.tcgetattr(0)
        attr[3] &= ~termios.ECHO
        termios.tcsetattr(0, termios.TCSANOW, attr)
    except Exception:
        pass

    def out(s):
        os.write(1, s.encode('utf-8'))

    buf = bytearray()

    def readline():
        while b'\n' not in buf:
            try:
                d = os.read(0, 4096)
            except OSError:
                d = b''
            if not d:
                return None
            buf.extend(d)
        k = buf.index(b'\n')
        line = bytes(buf[:k])
        del buf[:k + 1]
        return line.decode('utf-8', 'replace').rstrip('\r')

    for i, st in enumerate(sc['steps']):
        kind = st[0]
        note(i, kind, 'begin')
        if kind == 'hostkey':
            out("The authenticity of host 'h (10.0.0.1)' can't be established.\r\nAre you sure you want to continue connecting (yes/no)? ")
            note(i, kind, 'line', readline())
        elif kind == 'password':
            out("user@h's password: ")
            note(i, kind, 'line', readline())
            out('\r\n')
        elif kind == 'passphrase':
            out("Enter passphrase for key '/home/user/.ssh/id_rsa': ")
            note(i, kind, 'line', readline())
            out('\r\n')
        elif kind == 'termtype':
            out('Terminal type? ')
            note(i, kind, 'line', readline())
        elif kind == 'denied':
            out('Permission denied, please try again.\r\n')
        elif kind == 'banner':
            out(st[1])
        elif kind == 'closed':
            out('Connection closed by remote host\r\n')
            os._exit(255)
        elif kind == 'silence':
            time.sleep(st[1])
        elif kind == 'exit':
            os._exit(0)
        elif kind == 'shell':
            flavour, prompt = st[1], st[2]
            note(i, kind, 'shell', prompt)
            die_after = st[3] if len(st) > 3 else None      # the connection is lost after that many lines
            latency = st[4] if len(st) > 4 else 0           # seconds the shell takes over every line (the echo is immediate)
            nlines = 0
            import re as _re
            counter = [None]

            def shown(p):
                # 'h[#7]$ ' is a prompt with a command counter that starts at 7
                m = _re.search(r'#(\d+)', p)
                if not m or not p.startswith('h['):
                    return p
                if counter[0] is None:
                    counter[0] = int(m.group(1))
                r = p[:m.start()] + str(counter[0]) + p[m.end():]
                counter[0] += 1
                return r
            while True:
                out(shown(prompt))
                if die_after is not None and nlines >= die_after:
                    note(i, kind, 'died')
                    os._exit(0)
                line = readline()
                nlines += 1
                if line is None:
                    os._exit(0)
                note(i, kind, 'line', line)
                out(line + '\n')              # the remote pty echoes what was typed (the tty adds the CR)
                if latency:
                    time.sleep(latency)
                if line == 'exit':
                    os._exit(0)
                if line.startswith('PS1='):
                    val = line[4:].strip("'")
                    if flavour == 'sh':
                        prompt = val.replace('\\$', '$')
                        note(i, kind, 'prompt-set', prompt)
                    elif flavour == 'zsh' and '%(!.#.$)' in val:
                        prompt = val.replace('%(!.#.$)', '$')
                        note(i, kind, 'prompt-set', prompt)
                    elif flavour == 'csh':
                        out('PS1=[PEXPECT]$: Command not found.\n')
                elif line.startswith('set prompt='):
                    if flavour == 'csh':
                        prompt = line[11:].strip("'").replace('\\$', '$')
                        note(i, kind, 'prompt-set', prompt)
                elif line.startswith('echo '):
                    out(line[5:] + '\n')
                elif line.startswith('prompt restore'):
                    pass
    os._exit(0)


main()
