"""Scripted child used by the real-peer engines (run with python -S -E).

usage: rawpeer.py <script.json>
script: {"raw": bool, "ready": str|null, "record": path|null, "actions": [...]}
actions:
  ["w", hex]            write these bytes to stdout (complete write)
  ["s", seconds]        sleep
  ["rec", n]            read stdin until n more bytes have been recorded
  ["recuntil", hex]     read stdin until the recorded data ends with marker
  ["receof"]            read stdin until EOF / EIO
  ["echo", bool]        set/clear the tty ECHO flag
  ["ignore", [sig..]]   ignore these signals
  ["exit", code]        os._exit(code)
  ["kill", sig]         kill ourselves with sig (core dumps disabled)
  ["close"]             close fds 0,1,2 (hang up the tty) and keep running
  ["hang"]              sleep until killed
Everything read from stdin is appended, unbuffered, to the record file.
"""
import json
import os
import signal
import sys
import time


def main():
    with open(sys.argv[1]) as f:
        sc = json.load(f)
    rec = None
    if sc.get('record'):
        rec = os.open(sc['record'], os.O_WRONLY | os.O_CREAT | os.O_APPEND, 0o600)
    if sc.get('raw') and os.isatty(0):
        import termios
        import tty
        tty.setraw(0)
    if sc.get('ready'):
        os.write(1, sc['ready'].encode('ascii'))
    recorded = bytearray()
    pos = [0]

    def readsome():
        try:
            d = os.read(0, 65536)
        except OSError:
            return b''
        if d and rec is not None:
            os.write(rec, d)
        recorded.extend(d)
        return d

    for a in sc['actions']:
        op = a[0]
        if op == 'w':
            data = bytes.fromhex(a[1])
            while data:
                n = os.write(1, data)
                data = data[n:]
        elif op == 's':
            time.sleep(a[1])
        elif op == 'rec':
            # a[1] more bytes beyond what earlier actions have consumed
            while len(recorded) < pos[0] + a[1]:
                if not readsome():
                    break
            pos[0] = min(len(recorded), pos[0] + a[1])
        elif op == 'recuntil':
            # until the marker has been received (anywhere after what earlier actions consumed: it may
            # arrive in the same read as later input)
            mark = bytes.fromhex(a[1])
            while True:
                k = recorded.find(mark, pos[0])
                if k >= 0:
                    pos[0] = k + len(mark)
                    break
                if not readsome():
                    break
        elif op == 'receof':
            while readsome():
                pass
        elif op == 'echo':
            import termios
            attr = termios.tcgetattr(0)
            if a[1]:
                attr[3] |= termios.ECHO
            else:
                attr[3] &= ~termios.ECHO
            termios.tcsetattr(0, termios.TCSANOW, attr)
        elif op == 'ignore':
            for s in a[1]:
                signal.signal(s, signal.SIG_IGN)
        elif op == 'exit':
            os._exit(a[1])
        elif op == 'kill':
            try:
                import resource
                resource.setrlimit(resource.RLIMIT_CORE, (0, 0))
            except Exception:
                pass
            signal.signal(a[1], signal.SIG_DFL) if a[1] not in (signal.SIGKILL, signal.SIGSTOP) else None
            os.kill(os.getpid(), a[1])
            time.sleep(5)
        elif op == 'close':
            for fd in (0, 1, 2):
                try:
                    os.close(fd)
                except OSError:
                    pass
        elif op == 'hang':
            while True:
                time.sleep(3600)
    os._exit(0)


main()
