#!/venv/bin/python
"""Regenerates /verif/MANIFEST.json from the table below and validates it
against /root/.vp/MANIFEST.schema.json (when jsonschema is importable)."""
import json
import os
import sys

HERE = os.path.dirname(os.path.dirname(os.path.abspath(__file__)))

# id -> (engine, technique, level text, level note, design ref)
CHECKS = {
    'C01': ('E1 scripted transport + history invariant',
            'Hypothesis-generated call histories over a scripted transport; history invariant '
            '(handed-back + pending == received) plus real-fd replay; injected-fault tier (a read raising a foreign '
            'exception inside a call, then drained: everything handed back is the stream, once)',
            'Generated search (Hypothesis, seeded) over streams x read splittings x call histories x window '
            'sizes x bytes/utf-8, decided by a two-directional conservation invariant after every call; '
            'shrunk counterexamples are replayable. Exploration, not proof: absence is not established.',
            'Trusts the scripted transport to stand for the real ones on the read path (it runs the real '
            'decoder/_log and the real Expecter); 10% of marker-free cases are replayed on a real fdspawn pipe.',
            'DESIGN.md 3/C01'),
    'C02': ('E1 scripted transport + validity/optimality predicate',
            'Hypothesis-generated pattern lists/streams/splittings; brute-force validity + leftmost/lowest-index '
            'optimality predicate over the searched text (independent of the implementation)',
            'Generated search over pattern lists (overlapping, prefixes, duplicates, markers interleaved) x streams x '
            'splittings x window; each returned match is re-derived by brute force: genuine at the reported '
            'position, no earlier start for any listed pattern, lowest index on ties, match/match_index coherent.',
            'Searched text taken as the last W characters of before+after+buffer (C03 checks that). Scripted transport.',
            'DESIGN.md 3/C02'),
    'C03': ('E1 scripted transport + naive reference model',
            'Hypothesis-generated histories with per-call window; differential against a naive full re-search model '
            '(outcome, index, before/after/pending and number of reads)',
            'Differential testing of the incremental search (freshlen offset, look-back trimming, window rebuild) '
            'against a 40-line naive model, over chunkings, window sizes changing per call and TIMEOUT-trimmed buffers.',
            'The naive model is the specification (leftmost in the sliced last-W text, lowest index on ties). Scripted transport.',
            'DESIGN.md 3/C03'),
    'C04': ('E1 scripted transport + naive model (part A); E2/E3 real transports (part B)',
            'Hypothesis-generated histories with EOF/TIMEOUT markers at generated list positions; outcome oracle '
            '(index or exact exception class, before = all pending, after = class, sticky EOF)',
            'Generated search over marker positions x entry points x histories x timeout values incl. 0; every '
            'EOF/TIMEOUT outcome is checked for index/exact class/before/after/cleared buffer and a pending match '
            'must win; three extra calls after the first EOF.',
            'Part A runs on the scripted transport; part B on real pty/fd/socket objects (E2) and PopenSpawn children (E3); '
            'diagnostics are built by the real __str__ of each class.',
            'DESIGN.md 3/C04'),
    'C20': ('E1 scripted transport + naive model per pattern form',
            'Hypothesis-generated pattern text x flags x stream evaluated under every accepted pattern form and '
            'entry point; differential against the naive model with the reference regex of that form; invalid objects',
            'Metamorphic/differential: up to 12 forms x 3 entry points per case must agree with the reference '
            'semantics (DOTALL+ignorecase for strings, own flags for compiled, same flags across string types); '
            'invalid objects must raise TypeError before any read.',
            'Non-ASCII str patterns to a bytes-mode object are unspecified and not generated. Scripted transport.',
            'DESIGN.md 3/C20'),
    'C13': ('pure functions + probe child',
            'Hypothesis round trip for split_command_line (quote -> join -> split), generated PATH layouts for which() '
            'against a docstring reference, and a real probe child reporting argv/cwd/env/winsize/echo/SIGHUP',
            'Round-trip law over generated argument lists in three protection styles; differential against a '
            'reference which(); equality between what was requested and what a real child reports (pty string/list '
            'form, bytes/unicode mode, PopenSpawn).',
            'Truth for the launch part is what the child itself reports. Double quotes are only used for segments '
            'without a backslash (unspecified otherwise).',
            'DESIGN.md 3/C13'),
    'C14': ('real fdspawn on a pipe / pty pair under asyncio + blocking twin on E1',
            'Hypothesis-generated call histories mixing awaited and blocking calls with generated arrival schedules on a '
            'real pipe or pty pair; the chunks each call received are observed through logfile_read and replayed on the blocking '
            'implementation (differential twin); delivery completeness at every TIMEOUT/EOF; wall-clock bound on awaited timeouts',
            'After every call the awaited result (index/exception, before, after, match, pending text) must equal what the '
            'blocking Expecter computes from exactly the chunks the asyncio protocol was given, incl. data arriving between '
            'awaits, several chunks per loop turn, cuts inside multi-byte characters and EOF with the last data.',
            'Chunks are observed via logfile_read; pieces are written within a few loop turns, far inside the 0.3 s timeouts. '
            'Comparison stops after the first EOF.',
            'DESIGN.md 3/C14'),
    'C15': ('E6 in-process user terminal (outer pty) + raw-mode recording child',
            'Hypothesis-generated interact() sessions (typed streams over all byte values with the escape character at '
            'generated positions, filters, child output scripts, pending buffer, select|poll) run in a helper thread '
            'against an outer pty the harness plays the user on; byte-exact two-way oracle, return, terminal-mode restoration',
            'What the child recorded must be exactly the (filtered) typed stream before its first escape character; what '
            'the user terminal received must be the pending buffer plus the (filtered) child output; interact() must '
            'return and restore a distinctive termios mode.',
            'Filters are stateless per byte; keystrokes are typed only after the terminal was seen in raw mode.',
            'DESIGN.md 3/C15'),
    'C16': ('E5 real bash and python REPLs under replwrap',
            'Hypothesis-generated command sequences over a command family with output known by construction (0..300 KB, '
            'with/without final newline, multi-line blocks, incomplete constructs), run through REPLWrapper.run_command '
            'directly and awaited, one REPL per sequence',
            'Each returned value must be exactly the constructed output of its own command - nothing of the prompt, the '
            'previous or the next command - across generated sequences that interleave large outputs, silent commands and '
            'incomplete input (which must raise ValueError and leave the next command clean).',
            'The command family is chosen so that the REPL prints exactly the constructed text. Parallelism limited to 6 '
            'sessions because replwrap resynchronises with a hard-coded 1 s timeout.',
            'DESIGN.md 3/C16'),
    'C17': ('E5 scripted fake ssh client (peers/fakessh.py) under pxssh.login(cmd=...)',
            'Hypothesis-generated server dialogues x login options x shell flavours against a recording fake ssh; oracle on '
            'the order of what was read and sent (secrets only after their prompt, at most once), success only with a shell '
            'reached and the unique prompt set, exact delimiting by prompt(), pexpect exceptions otherwise, within the timeouts',
            'Dialogues over host-key/password/passphrase/denied/terminal-type/banner/shell/closed/silence/exit steps; the '
            'fake\'s own record and sequence-stamped send/read logs decide whether a secret was sent unasked; canonical '
            'dialogues must succeed, refusals must raise. One open known finding (guessing with both checks disabled).',
            'Banner text never matches the password regex. Timeouts scaled via public arguments; the hard-coded 10 s of '
            'set_unique_prompt capped by a harness subclass overriding expect().',
            'DESIGN.md 3/C17'),
    'C07': ('real descriptors with generated read sizes + scripted children (E3)',
            'Hypothesis-generated text x codec x error policy x cut points pushed through real pipe/socketpair/'
            'SocketSpawn/pty-child/Popen-child/asyncio transports; round trip against one-shot incremental decoding; '
            'thorough adds an exhaustive 1- and 2-cut sweep of short streams',
            'Round-trip oracle over 9 codecs, 3 error policies and every transport incl. asyncio, with read boundaries '
            'forced by read_nonblocking(size=k)/maxread=k on pre-filled descriptors or by piece-wise writing children; '
            'delivered text and logfile_read must equal one-shot decoding of the whole stream.',
            'Inputs on which CPython\'s own incremental decoders are chunk-dependent are discarded (counted). pty children '
            'only with ASCII-compatible codecs (spawn encodes argv with the instance encoding).',
            'DESIGN.md 3/C07'),
    'C08': ('E3 recording peers on all four transports (vf/engines/dialogue.py)',
            'Hypothesis-generated send-family histories (all byte values, non-ASCII text, payloads up to 256 KB, control '
            'characters) against a recording raw-mode pty child / Popen child / socket peer; byte-exact comparison with an '
            'independent stateful-encoder model; return values',
            'What the peer really received (its own recording) is compared byte for byte with a model of the documented '
            'encoding rules, over generated histories on pty, fdspawn, SocketSpawn and PopenSpawn, in bytes and unicode mode.',
            'Read triggers and the end marker are written directly by the harness and removed from the recording. '
            'delaybeforesend=None.',
            'DESIGN.md 3/C08'),
    'C09': ('E3 real children with a constructed fate',
            'Hypothesis-generated (fate, way of dying, observation history, transport) over real sh children whose exit '
            'code / terminating signal is known by construction; invariant over the history; thorough adds the exhaustive '
            'product of all 256 codes and 18 signals with 6 first observers',
            'Every exit code and terminating signal, every first observer (isalive, wait, close, terminate, expect(EOF), '
            'read) and generated repetitions; status attributes must equal the constructed fate, decode consistently and '
            'never change afterwards. The child is left to become a zombie (seen in /proc, never reaped by us) before it is observed.',
            'sh implements exit N / kill -S $$ faithfully; PIPE and XFSZ are inherited as ignored from Python and excluded.',
            'DESIGN.md 3/C09'),
    'C10': ('E3 real children, /proc truth, decoy descriptors',
            'model-based testing: Hypothesis-generated lifecycle operation sequences over real pty children with six '
            'dispositions (and fdspawn/SocketSpawn rule subsets); invariants against /proc after every step; decoy '
            'socketpairs take over released descriptor numbers; os.kill interposed to catch signals to reaped pids',
            'Generated sequences over isalive/wait/kill/terminate/close/sendeof/expect/send/read/with-exit/del on children '
            'that are normal, ignore HUP/INT(/TERM), are stopped, have exited or exit mid-sequence: liveness claims are '
            'compared with /proc, leaks are counted in /proc/self/fd, and I/O after release must raise without touching '
            'the sockets that now own the old number.',
            'Truth from /proc (state, ppid, start time). wait() only generated once the child has been told to die.',
            'DESIGN.md 3/C10'),
    'C12': ('E5 scripted dialogue child (peers/rawpeer.py) under run()',
            'Hypothesis-generated child dialogues x event tables (dict/list, string/function/method responses, EOF/TIMEOUT '
            'keys) on real children; conservation oracle on the returned output, exit status, the child\'s own record of '
            'received lines, and a callback invocation log',
            'The returned output must be exactly what the child printed up to the stop point, each piece once, whatever '
            'events fired (incl. a TIMEOUT event mid-stream and payloads far larger than maxread); responses are compared '
            'with what the child actually received, callbacks with the occurrences in stream order.',
            'Prompt tokens are prefix-free and absent from payloads; wall-clock timeouts with wide margins; EOF callbacks always stop.',
            'DESIGN.md 3/C12'),
    'C11': ('E3 recording peers + recording log objects',
            'the C08 history runner with recording log files in all 8 combinations; transcript oracle (read log, send '
            'log, merged log in operation order, flush after every write, string type per mode); interact() sessions '
            'with logs via the C15 harness; generated requests that cannot be delivered (unencodable text, closed pipe) '
            'must be logged all the same',
            'Generated interleavings of reads and sends on all four transports with every combination of the three log '
            'attributes; the logs must equal the model transcript exactly, be flushed after each write and carry the '
            'string type of the mode.',
            'The harness serialises operations, so the merge order is known.',
            'DESIGN.md 3/C11'),
    'C05': ('E2 kernel objects + interposed syscalls + virtual clock; E3 real children',
            'Hypothesis-generated arrival schedules x timeout values x entry points x transports on real pty/pipe/'
            'socket objects with interposed select/poll/read/waitpid/recv and a virtual clock; exact deadline '
            'accounting oracle (a)-(h); wall-clock confirmation with one-sided margins on real pty/Popen children',
            'The harness owns the schedule and the clock: a 1 us overrun, an early TIMEOUT, a per-read instead of an '
            'overall deadline, a wait longer than the remaining time and a call that would block forever are all '
            'visible deterministically. One open known finding (hang-up without exit) is probed, not suppressed.',
            'Trusts the virtual-time model of blocking waits; reads/readiness/EIO are the real kernel. EINTR is '
            'injected as InterruptedError from select/poll. PopenSpawn only in the wall-clock tier.',
            'DESIGN.md 3/C05'),
    'C06': ('E2 kernel objects + interposed syscalls; E3 real children',
            'Hypothesis-generated peer scripts (writes up to 300 KB, close/exit in either order) executed between the '
            'reader\'s system calls on real kernel objects; byte-exact content oracle, size bound, EOF placement, '
            'socket-timeout restoration; real pty/Popen children with randomised sleeps',
            'Places peer actions in the microsecond windows between select(0), os.read, waitpid and the timed wait of '
            'one read_nonblocking call, which a real schedule never hits by chance, and compares every byte.',
            'Trusts our model of when waitpid reports the child dead. PopenSpawn thread interleavings perturbed, not enumerated.',
            'DESIGN.md 3/C06'),
    'C18': ('Hypothesis token grammar + exhaustive sweep + atheris',
            'Hypothesis-generated terminal token sequences with generated cut points; totality/shape/cursor/no-residue '
            'oracles and a chunking metamorphic relation; thorough adds an exhaustive <=4-token sweep on tiny screens and '
            'a coverage-guided atheris campaign with a structured byte->token decoder',
            'Generated and exhaustive search over escape-sequence grammars incl. degenerate parameters, unknown and '
            'truncated sequences, str/bytes input in three encodings; the parser-residue oracle uses an independent '
            'regular expression for "completed sequence".',
            'Parameters up to 12 digits, sequences up to 40 tokens; bytes input is a valid encoding of the text.',
            'DESIGN.md 3/C18'),
    'C19': ('E4 reference grid',
            'model-based testing: Hypothesis-generated operation sequences against a reference grid written from the '
            'docstrings, all accessors compared after every step; thorough adds an exhaustive <=3-operation sweep on '
            '1x1, 1x2, 2x2 screens',
            'Every public screen operation with boundary arguments is compared cell by cell with a reference grid '
            '(frame condition included); where the docs are silent the model adopts the implementation under a validity predicate.',
            'erase_down/erase_up read as ESC[0J/ESC[1J; the vacated row of a scroll may stay or become blank; single characters only.',
            'DESIGN.md 3/C19'),
}

NOT_YET = {
}

ALL = ['C%02d' % i for i in range(1, 21)]


def main():
    checks = []
    for pid in ALL:
        if pid not in CHECKS:
            continue
        engine, technique, text, note, ref = CHECKS[pid]
        checks.append({
            'property_id': pid,
            'quick_cmd': './check %s quick' % pid,
            'thorough_cmd': './check %s thorough' % pid,
            'evidence_file': 'evidence/%s.json' % pid,
            'replay_cmd_template': './check %s --replay {path}' % pid,
            'engine': engine,
            'level_claimed': {'category': 'exploration', 'text': text, 'design_ref': ref},
            'level_note': note,
            'technique': technique,
        })
    na = []
    for pid in ALL:
        if pid not in CHECKS:
            na.append({'property_id': pid,
                       'reason': NOT_YET.get(pid, 'check designed (DESIGN.md section 3) but not built yet; '
                                                  'not claimed until its check runs quietly on the unchanged tree')})
    m = {
        'version': 1,
        'setup_cmd': './setup.sh',
        'hooks': {
            'guard': 'PEXPECT_VERIF',
            'enable': 'no source hooks: all observation/control is done from the harness (subclassing SpawnBase, '
                      'public attributes, module-attribute interposition of select/time/os); ./check exports '
                      'PEXPECT_VERIF=1 only for symmetry',
            'baseline_off_cmd': 'cd /repo && /venv/bin/python -m pytest -ra -q -p no:cacheprovider --timeout=900 '
                                '--continue-on-collection-errors',
            'source_commits': [],
            'add_only': True,
        },
        'engines': [
            {'name': 'E1', 'path': 'vf/engines/scripted.py, vf/engines/refmodel.py, vf/engines/e1.py',
             'serves_properties': ['C01', 'C02', 'C03', 'C04', 'C14', 'C20'],
             'kind_free_text': 'scripted transport (SpawnBase subclass playing a generated read script, virtual '
                               'clock) + naive reference model of the expect family + Hypothesis generators'},
            {'name': 'E2', 'path': 'vf/engines/simkernel.py', 'serves_properties': ['C04', 'C05', 'C06'],
             'kind_free_text': 'real pty/pipe/socketpair objects; select/poll/os.read/os.waitpid/os.kill/time/socket.recv '
                               'interposed from the harness by replacing module attributes; virtual clock; peer actions '
                               'fired between reader syscalls; detection of waits that can never end'},
            {'name': 'E3', 'path': 'vf/engines/peers.py, vf/engines/dialogue.py, peers/rawpeer.py, peers/probe.py',
             'serves_properties': ['C04', 'C05', 'C06', 'C07', 'C08', 'C09', 'C10', 'C11', 'C12', 'C13'],
             'kind_free_text': 'real peers: scripted pty/Popen children recording what they receive, pre-filled '
                               'pipes/socketpairs, recording log files'},
            {'name': 'E5', 'path': 'peers/rawpeer.py, peers/fakessh.py, vf/props/c12.py, vf/props/c16.py, vf/props/c17.py',
             'serves_properties': ['C12', 'C16', 'C17'],
             'kind_free_text': 'dialogue children: scripted run() dialogues, real bash/python REPLs, scripted fake ssh'},
            {'name': 'E6', 'path': 'vf/props/c15.py', 'serves_properties': ['C11', 'C15'],
             'kind_free_text': 'in-process user terminal: STDIN_FILENO/STDOUT_FILENO pointed at an os.openpty() slave, '
                               'sys.stdout swapped, interact() in a helper thread'},
            {'name': 'E4', 'path': 'vf/engines/screenmodel.py', 'serves_properties': ['C19'],
             'kind_free_text': 'reference grid for pexpect.screen written from the docstrings'},
        ],
        'checks': checks,
        'not_applicable': na,
        'notes': 'Technique family: property-based testing and fuzzing. ./check <ID> <quick|thorough> '
                 '[--replay FILE]; exit 0 held / 1 VIOLATION / 2 harness error. VERIF_SEED seeds every '
                 'Hypothesis run; known_findings.json lists repaired (fixed) and open findings.',
    }
    path = os.path.join(HERE, 'MANIFEST.json')
    with open(path, 'w') as f:
        json.dump(m, f, indent=1)
        f.write('\n')
    try:
        sys.path.insert(0, '/opt/veriftools/pyvenv/lib/python3.11/site-packages')
        import jsonschema
        schema = json.load(open('/root/.vp/MANIFEST.schema.json'))
        jsonschema.validate(m, schema)
        print('MANIFEST.json valid, %d checks, %d not claimed' % (len(checks), len(na)))
    except ImportError:
        print('MANIFEST.json written (jsonschema not importable, not validated)')


if __name__ == '__main__':
    main()
