#!/venv/bin/python
"""Seeded changes (independently written by sub-agents): import, verify, detect.

  tools/seeded.py import <PROP> <worktree>     copy SEED/{patch.diff,demo.py,notes.md} into /verif/seeded/<PROP>/
  tools/seeded.py verify <PROP>                demo fails with / passes without the change; the repository's own
                                               test-suite (253 baseline tests) still passes with it
  tools/seeded.py detect <PROP> [CHECK ...]    run the quick checks (default: the property's own) against the change

Everything runs on a scratch copy under /tmp (pexpect/ patched + tests/ next to it), removed afterwards; /repo is
never modified.  Results are merged into /verif/seeded/<PROP>/meta.json.
"""
import json
import os
import re
import shutil
import subprocess
import sys
import tempfile
import time
import xml.etree.ElementTree as ET

HERE = os.path.dirname(os.path.dirname(os.path.abspath(__file__)))
PY = '/venv/bin/python'


def sdir(prop):
    return os.path.join(HERE, 'seeded', prop)


def load_meta(prop):
    p = os.path.join(sdir(prop), 'meta.json')
    return json.load(open(p)) if os.path.exists(p) else {'property': prop}


def save_meta(prop, m):
    with open(os.path.join(sdir(prop), 'meta.json'), 'w') as f:
        json.dump(m, f, indent=1, sort_keys=True)
        f.write('\n')


def scratch(prop, with_tests=False, patched=True, at_origin=True):
    """A copy of /repo's pexpect (patched or not) laid out like the sub-agent's worktree, *at the worktree's
    original path* (the demos locate the library either relative to themselves or by that absolute path)."""
    m = load_meta(prop)
    tmp = (m.get('origin_path') if at_origin else None) or tempfile.mkdtemp(prefix='seed_%s_' % prop)
    if os.path.exists(tmp):
        if os.path.exists(os.path.join(tmp, '.git')):
            raise SystemExit('%s is still a git worktree: remove it first' % tmp)
        shutil.rmtree(tmp)
    os.makedirs(tmp)
    shutil.copytree('/repo/pexpect', os.path.join(tmp, 'pexpect'))
    os.makedirs(os.path.join(tmp, 'SEED'))
    for fn in os.listdir(sdir(prop)):
        if fn not in ('patch.diff', 'patch.orig.diff', 'meta.json', 'notes.md'):
            shutil.copy(os.path.join(sdir(prop), fn), os.path.join(tmp, 'SEED', fn))
    if with_tests:
        shutil.copytree('/repo/tests', os.path.join(tmp, 'tests'))
        for f in ('setup.cfg', '.coveragerc'):
            if os.path.exists('/repo/' + f):
                shutil.copy('/repo/' + f, tmp)
    if patched:
        r = subprocess.run(['patch', '-p1', '-s', '-d', tmp, '-i', os.path.join(sdir(prop), 'patch.diff')],
                           capture_output=True, text=True)
        if r.returncode != 0:
            shutil.rmtree(tmp, ignore_errors=True)
            raise SystemExit('patch does not apply to the current /repo: %s%s' % (r.stdout, r.stderr))
    return tmp


def cmd_import(prop, wt):
    d = sdir(prop)
    os.makedirs(d, exist_ok=True)
    seed = os.path.join(wt, 'SEED')
    # the patch is regenerated from the worktree (source change only)
    diff = subprocess.run(['git', '-C', wt, 'diff', '--', 'pexpect'], capture_output=True, text=True).stdout
    if not diff.strip():
        diff = open(os.path.join(seed, 'patch.diff')).read()
    open(os.path.join(d, 'patch.diff'), 'w').write(diff)
    shutil.copy(os.path.join(seed, 'demo.py'), os.path.join(d, 'demo.py'))
    # notes and any helper files the demonstration uses (a fake ssh client, ...)
    for fn in sorted(os.listdir(seed)):
        src = os.path.join(seed, fn)
        if fn in ('patch.diff', 'demo.py') or not os.path.isfile(src) or fn.endswith('.pyc'):
            continue
        shutil.copy(src, os.path.join(d, fn))
    m = load_meta(prop)
    m['property'] = prop[:3]
    m['origin_path'] = wt
    m['how_to_run_demo'] = ('tools/seeded.py verify %s --no-suite  (lays pexpect/ + SEED/demo.py out at %s, with and '
                            'without patch.diff, and runs `cd %s && /venv/bin/python SEED/demo.py`)' % (prop, wt, wt))
    m['source'] = 'written by an independent sub-agent given only the property text and a scratch worktree of /repo'
    m['files_changed'] = sorted(set(re.findall(r'^\+\+\+ b/(\S+)', diff, re.M)))
    save_meta(prop, m)
    subprocess.run(['git', '-C', '/repo', 'worktree', 'remove', '--force', wt], capture_output=True)
    subprocess.run(['git', '-C', '/repo', 'worktree', 'prune'], capture_output=True)
    print('imported', prop, m['files_changed'], '(worktree removed)')


def run_demo(root):
    env = dict(os.environ, PYTHONWARNINGS='ignore')
    env.pop('PYTHONPATH', None)
    try:
        r = subprocess.run([PY, 'SEED/demo.py'], env=env, capture_output=True, text=True, timeout=600, cwd=root)
        return r.returncode, (r.stdout + r.stderr).strip()[-600:]
    except subprocess.TimeoutExpired:
        return 124, 'demo timed out after 600 s'


def cmd_verify(prop, run_suite=True, part='all'):
    m = load_meta(prop)
    tmp = scratch(prop, patched=False, with_tests=True)      # some demonstrations use tests/fakessh etc.
    rc0, out0 = run_demo(tmp)
    shutil.rmtree(tmp, ignore_errors=True)
    tmp = scratch(prop, with_tests=True)
    try:
        rc1, out1 = run_demo(tmp)
        m['demo'] = {'without_change_exit': rc0, 'with_change_exit': rc1, 'with_change_output': out1[-400:], 'without_change_output': out0[-200:],
                     'ok': rc0 == 0 and rc1 != 0}
        print('demo: without change exit %d, with change exit %d' % (rc0, rc1))
        if run_suite:
            xml = os.path.join(tmp, 'junit.xml')
            t0 = time.time()
            env = dict(os.environ, PYTHONPATH=tmp)
            sel = {'all': [], 'nosock': ['-k', 'not socket'], 'sock': ['-k', 'socket']}[part]
            r = subprocess.run([PY, '-m', 'pytest', '-q', '-p', 'no:cacheprovider', '--timeout=900',
                                '--continue-on-collection-errors', '--junitxml=' + xml] + sel + ['tests'],
                               cwd=tmp, env=env, capture_output=True, text=True, timeout=3600)
            where = subprocess.run([PY, '-c', 'import pexpect; print(pexpect.__file__)'], cwd=os.path.join(tmp, 'tests'),
                                   env=env, capture_output=True, text=True).stdout.strip()
            base = json.load(open('/root/.vp/BASELINE.json'))
            stable = set(base['stable_pass'])
            passed = set()
            for tc in ET.parse(xml).getroot().iter('testcase'):
                if not any(ch.tag in ('failure', 'error', 'skipped') for ch in tc):
                    passed.add('%s::%s' % (tc.get('classname'), tc.get('name')))
            if part != 'all':
                # the suite run in two passes (everything but the socket tests, which share a TCP port and must run
                # alone; then the socket tests): the passes are merged once both are there
                parts = m.setdefault('test_suite_parts', {})
                parts[part] = sorted(passed)
                print('suite part %s: %d baseline tests passed (%s)' % (part, len(stable & passed), where))
                if not ('nosock' in parts and 'sock' in parts):
                    save_meta(prop, m)
                    return
                passed = set(parts['nosock']) | set(parts['sock'])
                del m['test_suite_parts']
            missing = sorted(stable - passed)
            m['test_suite'] = {'baseline_tests': len(stable), 'baseline_passing_with_change': len(stable & passed),
                               'baseline_failing_with_change': missing[:10], 'imported_from': where,
                               'wall_s': round(time.time() - t0, 1), 'tail': r.stdout.strip().splitlines()[-1:] }
            print('suite: %d/%d baseline tests pass with the change (%s)' % (len(stable & passed), len(stable), where))
        m['verified'] = bool(m['demo']['ok'] and (not run_suite or not m['test_suite']['baseline_failing_with_change']))
        save_meta(prop, m)
    finally:
        shutil.rmtree(tmp, ignore_errors=True)


def cmd_detect(prop, checks):
    m = load_meta(prop)
    tmp = scratch(prop, at_origin=False)       # the checks need the library only: any path will do
    res = m.get('detection', {})
    try:
        for c in checks:
            env = dict(os.environ, VERIF_REPO=tmp, VERIF_OUT=os.path.join(tmp, 'out'))
            t0 = time.time()
            r = subprocess.run([os.path.join(HERE, 'check'), c, 'quick'], env=env, capture_output=True, text=True, timeout=3600)
            viol = [l for l in r.stdout.splitlines() if l.startswith('violation:')]
            res[c] = {'exit': r.returncode, 'wall_s': round(time.time() - t0, 1),
                      'first_violation': viol[0][:300] if viol else None, 'tier': 'quick'}
            # a detection only counts if the very same case passes on the unchanged tree
            for l in r.stdout.splitlines():
                if r.returncode == 1 and l.startswith('VIOLATION ') and 'replay=' in l:
                    rp = l.split('replay=', 1)[1].strip()
                    if not os.path.isabs(rp):
                        rp = os.path.join(tmp, 'out', rp)
                    env2 = dict(os.environ)
                    env2.pop('VERIF_REPO', None)
                    env2['VERIF_OUT'] = os.path.join(tmp, 'out2')
                    r2 = subprocess.run([os.path.join(HERE, 'check'), c, '--replay', rp], env=env2, capture_output=True, text=True, timeout=600)
                    res[c]['same_case_on_unchanged_tree'] = 'passes' if r2.returncode == 0 else 'FAILS (exit %d)' % r2.returncode
                    if r2.returncode != 0:
                        res[c]['exit'] = 'spurious'
                        print('%s vs seeded/%s: NOT A DETECTION - the reported case also fails on the unchanged tree' % (c, prop))
                    break
            print('%s vs seeded/%s: exit %s %s' % (c, prop, res[c]['exit'], (viol[0][:160] if viol else r.stdout.strip().splitlines()[-1][:160])))
        m['detection'] = res
        m['detected_by'] = sorted(c for c, v in res.items() if v['exit'] == 1)
        save_meta(prop, m)
    finally:
        shutil.rmtree(tmp, ignore_errors=True)


def _norm(x):
    # seed ids: C01, and C01B / C01b for a second seed of the same property
    return x[:3].upper() + x[3:].lower()


def main():
    a = sys.argv[1:]
    if len(a) < 2:
        print(__doc__)
        return 2
    if a[0] == 'import':
        cmd_import(_norm(a[1]), a[2])
    elif a[0] == 'verify':
        cmd_verify(_norm(a[1]), run_suite='--no-suite' not in a,
                   part=('nosock' if '--nosock' in a else 'sock' if '--sock' in a else 'all'))
    elif a[0] == 'detect':
        prop = _norm(a[1])
        cmd_detect(prop, [c.upper() for c in a[2:]] or [prop[:3]])
    return 0


if __name__ == '__main__':
    sys.exit(main())
