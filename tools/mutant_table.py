"""Mutants used by the sensitivity protocol: realistic edits (off-by-one,
dropped branch, swapped operands, lost reset) that still import."""

E = 'expect.py'
SB = 'spawnbase.py'

MUTANTS = {
 'C01': [
  ('new_data-drops-before-write', E, "        freshlen = len(data)\n        spawn._before.write(data)\n",
   "        freshlen = len(data)\n"),
  ('buffer-keeps-match', E, "            spawn._buffer.write(window[searcher.end:])\n            before = ",
   "            spawn._buffer.write(window[searcher.start:])\n            before = "),
  ('before-keeps-match', E, "            spawn._before = spawn.buffer_type()\n            spawn._before.write(window[searcher.end:])",
   "            spawn._before = spawn.buffer_type()\n            spawn._before.write(window[searcher.start:])"),
  ('eof-keeps-before', E, "        spawn._buffer = spawn.buffer_type()\n        spawn._before = spawn.buffer_type()\n        spawn.after = EOF",
   "        spawn._buffer = spawn.buffer_type()\n        spawn.after = EOF"),
  ('timeout-clears-buffers', E, "        spawn.before = spawn._before.getvalue()\n        spawn.after = TIMEOUT",
   "        spawn.before = spawn._before.getvalue()\n        spawn._buffer = spawn.buffer_type()\n        spawn._before = spawn.buffer_type()\n        spawn.after = TIMEOUT"),
  ('before-off-by-one', E, "0:len(before) - (len(window) - searcher.start)]", "0:len(before) - (len(window) - searcher.start) - 1]"),
  ('revert-F1-neg-zero-slice', E, "0:len(before) - (len(window) - searcher.start)]", "0:-(len(window) - searcher.start)]"),
  ('revert-F2-setter', SB, "        self._before = self.buffer_type()\n        self._before.write(value)\n", ""),
  ('readline-drops-crlf', SB, "            return self.before + self.crlf", "            return self.before"),
  ('read-returns-before', SB, "            return self.after\n        return self.before", "            return self.before\n        return self.before"),
 ],
 'C02': [
  ('re-tie-last-wins', E, "            if first_match is None or n < first_match:\n                first_match = n\n                the_match",
   "            if first_match is None or n <= first_match:\n                first_match = n\n                the_match"),
  ('str-tie-last-wins', E, "            if n >= 0 and (first_match is None or n < first_match):", "            if n >= 0 and (first_match is None or n <= first_match):"),
  ('re-enumerate-after-filter', E, "            self._searches.append((n, s))", "            self._searches.append((len(self._searches), s))"),
  ('str-enumerate-after-filter', E, "            self._strings.append((n, s))", "            self._strings.append((len(self._strings), s))"),
  ('re-best-index-wrong-var', E, "                the_match = match\n                best_index = index", "                the_match = match\n            best_index = index"),
  ('re-start-is-end', E, "            n = match.start()", "            n = match.end()"),
  ('str-rightmost', E, "            n = buffer.find(s, offset)", "            n = buffer.rfind(s, offset)"),
  ('match-not-copied', E, "            spawn.match = searcher.match\n", ""),
  ('after-from-end', E, "            spawn.after = window[searcher.start:searcher.end]", "            spawn.after = window[searcher.start:searcher.end + 1]"),
  ('match-index-off', E, "            spawn.match_index = index\n            # Found", "            spawn.match_index = index + 1 if index else index\n            # Found"),
 ],
 'C03': [
  ('str-offset-no-lookback', E, "                offset = -(freshlen + len(s))", "                offset = -freshlen"),
  ('trim-maintain-minus-1', E, "                spawn._buffer.write(window[-maintain:])", "                spawn._buffer.write(window[-maintain + 1:])"),
  ('chunk-ge-minus-1', E, "            if len(data) >= self.searchwindowsize or not spawn._buffer.tell():", "            if len(data) >= self.searchwindowsize - 1 or not spawn._buffer.tell():"),
  ('skip-rebuild-when-window-grows', E, "            elif buf_len < self.searchwindowsize:", "            elif False:"),
  ('skip-rebuild-when-window-removed', E, "        if before_len > buf_len:\n            if not self.searchwindowsize:", "        if before_len > buf_len:\n            if False:"),
  ('re-searchstart-off', E, "            searchstart = max(0, len(buffer) - searchwindowsize)", "            searchstart = max(0, len(buffer) - searchwindowsize + 1)"),
  ('lookback-window-too-short', E, "                spawn._buffer.seek(max(0, old_len - self.lookback))", "                spawn._buffer.seek(max(0, old_len - self.lookback + 2))"),
  ('new-window-seek-off', E, "                spawn._buffer.seek(max(0, new_len - self.searchwindowsize))\n                window = spawn._buffer.read()\n        return self.do_search(window, freshlen)",
   "                spawn._buffer.seek(max(0, new_len - self.searchwindowsize + 1))\n                window = spawn._buffer.read()\n        return self.do_search(window, freshlen)"),
  ('freshlen-existing-zero', E, "        freshlen = before_len\n", "        freshlen = 0\n"),
  # ('maintain-prefers-lookback': equivalent for exact search - look-back of the longest string is enough)
 ],
}
