#!/usr/bin/env python3
"""Prints a one-line-per-property summary of evidence/*.json (markdown table)."""
import glob, json, os
here = os.path.dirname(os.path.dirname(os.path.abspath(__file__)))
print('| Property | tier | cases | distinct non-trivial | wall s | violations | known findings | excluded (known) |')
print('|---|---|---|---|---|---|---|---|')
for p in sorted(glob.glob(os.path.join(here, 'evidence', 'C*.json'))):
    e = json.load(open(p))
    c = e['coverage']
    print('| %s | %s | %d | %d | %.0f | %d | %d | %d |' % (e['property_id'], e['tier'], c['evaluations'], c['distinct_nontrivial'],
          e['wall_s'], e.get('violations', 0), len(c.get('known_findings_reported', [])), c.get('excluded_known', 0)))
