#!/usr/bin/env python3
"""Validates evidence/*.json against the schema (run with python3-vt)."""
import json, sys, glob, os
import jsonschema
here = os.path.dirname(os.path.dirname(os.path.abspath(__file__)))
schema = json.load(open('/root/.vp/EVIDENCE.schema.json'))
bad = 0
for p in sorted(glob.glob(os.path.join(here, 'evidence', '*.json'))):
    try:
        jsonschema.validate(json.load(open(p)), schema)
        print('ok  ', os.path.basename(p))
    except Exception as e:
        bad += 1
        print('BAD ', os.path.basename(p), str(e)[:200])
sys.exit(1 if bad else 0)
