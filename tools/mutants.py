#!/venv/bin/python
"""Sensitivity protocol (DESIGN 1.6): apply each listed mutant to a scratch
copy of /repo/pexpect (outside /repo and /verif), run the property's quick
check against it, report killed / survived, remove the copy.

    tools/mutants.py C01 [C02 ...] [--only NAME] [--tier quick] [-j N]

A mutant is (name, file, old, new[, count]).  `old` must occur in the file.
Evidence and replays of mutant runs go to a scratch dir, never to /verif.
"""
import os
import shutil
import subprocess
import sys
import tempfile
import time
from concurrent.futures import ThreadPoolExecutor

HERE = os.path.dirname(os.path.dirname(os.path.abspath(__file__)))
sys.path.insert(0, HERE)
from tools.mutant_table import MUTANTS   # noqa


def run_one(pid, mut, tier, procs):
    name, fn, old, new = mut[:4]
    tmp = tempfile.mkdtemp(prefix='pexmut_')
    try:
        shutil.copytree('/repo/pexpect', os.path.join(tmp, 'pexpect'))
        path = os.path.join(tmp, 'pexpect', fn)
        src = open(path).read()
        if old not in src:
            return (pid, name, 'STALE', 'pattern not found in %s' % fn, 0)
        src = src.replace(old, new, 1)
        open(path, 'w').write(src)
        r = subprocess.run([sys.executable, '-c', 'import ast,sys; ast.parse(open(sys.argv[1]).read())', path],
                           capture_output=True)
        if r.returncode != 0:
            return (pid, name, 'BROKEN', 'does not parse', 0)
        env = dict(os.environ, VERIF_REPO=tmp, VERIF_OUT=os.path.join(tmp, 'out'), VERIF_PROCS=str(procs))
        t0 = time.time()
        r = subprocess.run([os.path.join(HERE, 'check'), pid, tier], env=env, capture_output=True, text=True,
                           timeout=3600)
        dt = time.time() - t0
        viol = [l for l in r.stdout.splitlines() if l.startswith('violation:')]
        if r.returncode == 1:
            return (pid, name, 'killed', viol[0][:160] if viol else '', dt)
        if r.returncode == 0:
            return (pid, name, 'SURVIVED', r.stdout.strip().splitlines()[-1][:160], dt)
        return (pid, name, 'HARNESS(%d)' % r.returncode, (r.stdout + r.stderr).strip()[-400:], dt)
    finally:
        shutil.rmtree(tmp, ignore_errors=True)


def main():
    args = sys.argv[1:]
    tier = 'quick'
    only = None
    jobs = 2
    pids = []
    i = 0
    while i < len(args):
        a = args[i]
        if a == '--tier':
            tier = args[i + 1]; i += 2; continue
        if a == '--only':
            only = args[i + 1]; i += 2; continue
        if a == '-j':
            jobs = int(args[i + 1]); i += 2; continue
        pids.append(a.upper()); i += 1
    todo = []
    for pid in pids:
        for mut in MUTANTS.get(pid, []):
            if only and only not in mut[0]:
                continue
            todo.append((pid, mut))
    procs = max(2, 16 // jobs)
    with ThreadPoolExecutor(jobs) as ex:
        futs = [ex.submit(run_one, pid, mut, tier, procs) for pid, mut in todo]
        surv = 0
        for f in futs:
            pid, name, status, info, dt = f.result()
            print('%-4s %-42s %-9s %5.1fs  %s' % (pid, name, status, dt, info), flush=True)
            if status != 'killed':
                surv += 1
    print('%d mutants, %d not killed' % (len(todo), surv))
    return 1 if surv else 0


if __name__ == '__main__':
    sys.exit(main())
